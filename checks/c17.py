"""C17 — grafana.net route: retry until acknowledged, series order kept, shutdown drains.

1. TLC model-checks spec/GrafanaNet.tla (level B: run()/retryFlush()/Dispatch/Shutdown at select-branch grain)
   against the C17 clauses, safety and liveness, for small constants; the pinned shutdown protocol and named
   deviations must be rejected (non-vacuity).
2. TLC (simulation of the same model) generates short scenarios: dispatch order, timer flushes, fault
   sequence, shutdown.  Seeded long scenarios are added (many series, holds, several dispatchers).
3. The real route.NewGrafanaNet runs every scenario against a scripted httptest endpoint (harness/gnet).
4. TLC evaluates the level-A statement (spec/GrafanaNetOps.tla via GrafanaNetTrace.tla) on the recorded events
   and names the clauses an execution breaks.

Endpoint outcomes: 2xx, 4xx, 5xx, hang until the client's timeout, connection reset, and "stall": a failure status line
and headers arrive (flushed), then the response body stalls (or trickles a byte at a time) on the open connection until
the client gives up.  In the model it is one more failure kind of Attempt (the route's timeout covers the whole exchange,
so the attempt fails and is retried); the deviation stalled_body_blocks_forever (a timeout that covers only the wait for
the headers: the worker blocks for good) is rejected by ShutdownReturns / AckedAtLeastOnce.

Scenario family "pile" (shutdown of a backed-up blocking route): the endpoint is down, one goroutine per series
dispatches one point, the driver waits until each call has returned or is parked on the full queue of its shard
(goroutine state "chan send"), calls Shutdown and lets the endpoint recover.  Every Dispatch call that returned
(before or while Shutdown ran) handed its point to the buffer and must be acknowledged when Shutdown returns;
calls still parked at the end are recorded ("blocked") and not judged.  The model has the same environment:
up to NDisp calls in progress, callers parked on sendq[w] get the slot a receive frees (as the Go runtime does),
Shutdown may be requested while callers are parked; the outage variant (Outage = TRUE) generates these scenarios.
"""
import copy, json, os, random, re, shutil
from concurrent.futures import ThreadPoolExecutor
from vlib.core import Machinery

LEVEL = "model_checking"

# "stall": failure status line + headers + the beginning of the body, then the body stalls (<status>stall) or comes a
# byte at a time (<status>trickle) on the open connection until the client gives up
CODES = {"2xx": ["200"], "4xx": ["400", "429"], "5xx": ["500", "503"], "timeout": ["timeout"], "reset": ["reset"],
         "stall": ["500stall", "503stall", "500trickle"]}


def fnv1a(name):
    h = 0x811c9dc5
    for b in name.encode():
        h = ((h ^ b) * 0x01000193) & 0xffffffff
    return h


def names_for(conc, shards, tag):
    """concrete series names whose shard (FNV-1a % conc, as route.Dispatch computes it) is the wanted one"""
    out = []
    for i, w in enumerate(shards):
        j = 0
        while True:
            n = "c17.%s.s%d.v%d" % (tag, i, j)
            if w is None or fnv1a(n) % conc == w:
                out.append(n)
                break
            j += 1
    return out


# ------------------------------------------------------------------ model checking
BASE = dict(NW=2, Cap=1, FlushMaxNum=2, NSeries=2, MaxMetrics=3, MaxFaults=1, Blocking=False,
            AllowShutdown=True, Protocol="repaired", Mutant="", NDisp=1, Outage=False)
# the endpoint is down until the shutdown signal; every series gets one point by its own dispatcher
OUTAGE = dict(BASE, Blocking=True, Outage=True, NSeries=4, MaxMetrics=4, NDisp=4, MaxFaults=1, live=False)


def mc_jobs(ctx):
    q = ctx.quick()
    ok, bad = [], []
    if q:
        ok += [dict(BASE), dict(BASE, Blocking=True, NDisp=2), dict(BASE, Cap=2, FlushMaxNum=1, MaxMetrics=3, MaxFaults=2, live=False),
               dict(OUTAGE, FlushMaxNum=1, NSeries=3, MaxMetrics=3, NDisp=3)]
    else:
        for blocking in (False, True):
            ok += [dict(BASE, Blocking=blocking),
                   dict(BASE, Blocking=blocking, Cap=1, FlushMaxNum=1, MaxFaults=2),
                   dict(BASE, Blocking=blocking, Protocol="pinned", AllowShutdown=False, MaxFaults=2),
                   # 4 points: safety only (the liveness graph of these is ~10x the state count)
                   dict(BASE, Blocking=blocking, MaxMetrics=4, MaxFaults=2, live=False),
                   dict(BASE, Blocking=blocking, Cap=2, FlushMaxNum=1, MaxMetrics=4, MaxFaults=2, live=False),
                   dict(BASE, Blocking=blocking, Cap=2, FlushMaxNum=2, MaxMetrics=4, MaxFaults=2, live=False)]
        # several dispatchers, callers parked on full queues while Shutdown runs
        ok += [dict(BASE, Blocking=True, NDisp=2),
               dict(BASE, Blocking=True, NDisp=2, FlushMaxNum=1, MaxFaults=2),
               dict(BASE, Blocking=True, NDisp=3, NSeries=3, MaxMetrics=4, live=False),
               dict(BASE, Blocking=False, NDisp=2, NSeries=3, MaxMetrics=4, live=False),
               dict(OUTAGE), dict(OUTAGE, FlushMaxNum=1), dict(OUTAGE, Cap=2, NSeries=5, MaxMetrics=5, NDisp=5, NW=1)]
    # the protocol as found in the pinned tree (defect F7) and named deviations: each must be rejected
    bad += [(dict(BASE, Protocol="pinned"), {"ShutdownReturns", "temporal"}),
            (dict(BASE, Mutant="give_up"), {"NeverAbandoned", "LevelA"}),
            (dict(BASE, Mutant="nb_no_default"), {"NonBlockingNeverBlocks"}),
            # the shutdown drain receives only what was queued when the worker saw the signal: what parked callers
            # enqueue meanwhile stays behind
            (dict(BASE, Blocking=True, Mutant="drain_counted_once", live=False), {"AllBufferedFlushed"}),
            # the timeout bounds only the wait for the response headers: a response body that stalls afterwards blocks
            # the worker for good (no retry, nothing behind it is sent, Shutdown never returns) - liveness only
            (dict(BASE, Mutant="stalled_body_blocks_forever"), {"ShutdownReturns", "AckedAtLeastOnce", "temporal"})]
    if not q:
        bad += [(dict(BASE, Blocking=True, Mutant="shard_by_point"), {"LevelA"}),
                (dict(BASE, Mutant="drop_uncounted"), {"DropsCounted", "LevelA", "NeverAbandoned"}),
                (dict(BASE, Mutant="retry_reorders", MaxMetrics=4), {"LevelA"}),
                (dict(BASE, Mutant="flush_loses_last"), {"NeverAbandoned", "LevelA"}),
                (dict(BASE, Mutant="no_drain", Cap=2), {"AllBufferedFlushed", "LevelA"}),
                (dict(BASE, Mutant="no_final_flush"), {"AllBufferedFlushed", "LevelA"}),
                (dict(BASE, Blocking=True, Protocol="pinned"), {"ShutdownReturns", "temporal"}),
                (dict(OUTAGE, Mutant="drain_counted_once"), {"AllBufferedFlushed"}),
                # the same deviation seen by the liveness clause alone (safety invariants off)
                (dict(BASE, Blocking=True, Mutant="drain_counted_once", only_props=True), {"AckedAtLeastOnce", "temporal"}),
                (dict(BASE, Blocking=True, NDisp=2, Mutant="stalled_body_blocks_forever", only_props=True),
                 {"ShutdownReturns", "AckedAtLeastOnce", "temporal"})]
    return ok, bad


def mc_one(ctx, consts, expect_ok, i):
    consts = dict(consts)
    live = consts.pop("live", True)
    extra = "PROPERTIES ShutdownReturns AckedAtLeastOnce\n" if live else ""
    cfg = "GrafanaNet_live.cfg" if consts.pop("only_props", False) else "GrafanaNet_mc.cfg"
    return ctx.tlc("GrafanaNet", cfg, consts=consts, workers=4, timeout=ctx.pick(1500, 6000),
                   expect_ok=expect_ok, count=expect_ok, extra_cfg=extra, tag="mc%s%d" % ("ok" if expect_ok else "bad", i),
                   heap="4g")


def model_check(ctx, pool):
    ok, bad = mc_jobs(ctx)
    if os.environ.get("VERIF_C17_DEV") == "nomc":      # development only (trying mutants of the Go code): skip the model checking
        ok, bad = [], []
    futs = [(pool.submit(mc_one, ctx, c, True, i), c, None) for i, c in enumerate(ok)]
    futs += [(pool.submit(mc_one, ctx, c, False, i), c, want) for i, (c, want) in enumerate(bad)]
    return futs


def model_check_join(ctx, futs):
    rejected = []
    for f, c, want in futs:
        r = f.result()
        if want is not None:
            m = re.search(r"Temporal propert(?:y|ies) (.+?) (?:was|were) violated", r["text"])
            if m and not r["violated"]:
                names = [x for x in re.split(r"[ ,]+|\band\b", m.group(1)) if x]
                r["violated"] = next((x for x in names if x in want), names[0] if names else "temporal")
            if r["violated"] is None or r["violated"] not in want:
                raise Machinery("deviation %s of GrafanaNet.tla is not rejected as expected (violated=%s, wanted one of %s); log %s"
                                % (json.dumps(c), r["violated"], sorted(want), r["log"]))
            rejected.append("%s%s%s -> %s" % (c["Protocol"], ("/" + c["Mutant"]) if c["Mutant"] else "",
                                              "/outage" if c.get("Outage") else "", r["violated"]))
    ctx.cov["model_deviations_rejected"] = rejected


# ------------------------------------------------------------------ scenarios
def gen_model_scenarios(ctx, want, pool):
    """short scenarios = environment histories of finished behaviours of GrafanaNet.tla (TLC simulation)"""
    rng = random.Random(ctx.seed * 7919 + 1)
    out, seen = [], set()
    combos = [(cap, fmn, blocking) for cap in (1, 2) for fmn in (1, 2) for blocking in (False, True)]
    rng.shuffle(combos)
    if ctx.quick():
        combos = combos[:3]
    per = max(1, want // len(combos))

    def sim(ci, cap, fmn, blocking):
        consts = dict(NW=2, Cap=cap, FlushMaxNum=fmn, NSeries=2, MaxMetrics=4, MaxFaults=3, Blocking=blocking,
                      AllowShutdown=True, NDisp=1, Outage=False)
        return ctx.tlc("GrafanaNet", "GrafanaNet_gen.cfg", consts=consts, workers=1, timeout=900,
                       simulate="num=%d" % (per * 3), args=["-depth", "60", "-seed", str(ctx.seed * 100 + ci)],
                       count=False, tag="gen%d" % ci, heap="2g")

    # outage behaviours (blocking, the endpoint down until the shutdown signal, one dispatcher per series):
    # the "pile" scenarios with the model's small constants
    ocombos = [(nw, cap, fmn) for nw in (1, 2) for cap in (1, 2) for fmn in (1, 2)]
    rng.shuffle(ocombos)
    ocombos = ocombos[:ctx.pick(2, 8)]
    operc = ctx.pick(6, 40)

    def osim(ci, nw, cap, fmn):
        consts = dict(NW=nw, Cap=cap, FlushMaxNum=fmn, NSeries=6, MaxMetrics=6, MaxFaults=2, Blocking=True,
                      AllowShutdown=True, NDisp=6, Outage=True)
        return ctx.tlc("GrafanaNet", "GrafanaNet_gen.cfg", consts=consts, workers=1, timeout=900,
                       simulate="num=%d" % (operc * 4), args=["-depth", "90", "-seed", str(ctx.seed * 100 + 50 + ci)],
                       count=False, tag="geno%d" % ci, heap="2g")

    futs = [pool.submit(sim, ci, *c) for ci, c in enumerate(combos)]
    ofuts = [pool.submit(osim, ci, *c) for ci, c in enumerate(ocombos)]
    for (cap, fmn, blocking), f in zip(combos, futs):
        r = f.result()
        got = 0
        for s in ctx.tlc_printed(r, "@@S"):
            if s in seen:
                continue
            seen.add(s)
            h = json.loads(s)
            steps, faults = [], []
            for e in h["hist"]:
                if e["op"] == "d":
                    steps.append(dict(op="d", s=e["s"]))
                elif e["op"] == "t":
                    if steps and steps[-1]["op"] == "d":
                        steps.append(dict(op="q"))
                elif e["op"] == "f":
                    faults.append(rng.choice(CODES[e["k"]]))
            while faults and faults[-1] == "200":
                faults.pop()
            out.append(dict(conc=2, bufsize=2 * cap, fmn=fmn, fmw_ms=rng.choice([5, 10, 20]), timeout_ms=150,
                            blocking=blocking, ndisp=1, names=names_for(2, [0, 1], "m"), steps=steps, faults=faults,
                            quiesce=False, shutdown=bool(h["sd"]), origin="tlc"))
            got += 1
            if got >= per:
                break
    if len(out) < max(3, want // 4):
        raise Machinery("TLC simulation produced only %d scenarios" % len(out))
    npile = 0
    for (nw, cap, fmn), f in zip(ocombos, ofuts):
        r = f.result()
        got = 0
        for s in ctx.tlc_printed(r, "@@S"):
            if s in seen:
                continue
            seen.add(s)
            h = json.loads(s)
            sd = [i for i, e in enumerate(h["hist"]) if e["op"] == "sd"]
            if not h["sd"] or not sd or h["hist"][sd[0]]["parked"] == 0:
                continue            # shutdown without parked callers: the family above has those
            pile = [e["s"] for e in h["hist"] if e["op"] == "d"]
            down = [e["k"] for e in h["hist"][:sd[0]] if e["op"] == "f"]
            faults = [rng.choice(CODES[e["k"]]) for e in h["hist"][sd[0]:] if e["op"] == "f"]
            while faults and faults[-1] == "200":
                faults.pop()
            out.append(dict(conc=nw, bufsize=nw * cap, fmn=fmn, fmw_ms=rng.choice([5, 10, 20]), timeout_ms=150,
                            blocking=True, ndisp=1, names=names_for(nw, [x % nw for x in range(6)], "o"), steps=[],
                            faults=faults, quiesce=False, shutdown=True, origin="tlc",
                            pile=pile, pile_code=rng.choice(CODES[down[0]]) if down else "503", recover="after",
                            model_parked=h["hist"][sd[0]]["parked"]))
            got += 1
            if got >= operc:
                break
        npile += got
    if npile < ctx.pick(4, 30):
        raise Machinery("TLC simulation produced only %d outage scenarios with parked callers" % npile)
    return out


def fault_script(rng, n, pfault, max_timeouts):
    out, run, nto = [], 0, 0
    for _ in range(n):
        if rng.random() < pfault and run < 6:
            k = rng.choice(["400", "429", "500", "503", "reset", "reset", "timeout"])
            if k == "timeout":
                if nto >= max_timeouts:
                    k = "503"
                else:
                    nto += 1
            out.append(k)
            run += 1
        else:
            out.append("200")
            run = 0
    return out


def random_scenario(rng, npoints):
    conc = rng.choice([1, 2, 2, 3, 4])
    per = rng.choice([1, 1, 2, 3, 8])
    bufsize = conc * per
    fmn = rng.choice([1, 2, 3, 7])
    blocking = rng.random() < 0.5
    ndisp = rng.choice([1, 1, 1, 2, 3])
    nseries = rng.randint(2, 12)
    steps = []
    hold_at = rng.randrange(npoints) if rng.random() < 0.6 else -1
    i = 0
    while i < npoints:
        if i == hold_at:
            burst = bufsize + conc * fmn + rng.randint(3, 12)
            if blocking:
                steps.append(dict(op="hold", n=rng.randint(1, 3)))
            else:
                steps.append(dict(op="hold", n=0))
            for _ in range(burst):
                steps.append(dict(op="d", s=rng.randrange(nseries)))
            steps.append(dict(op="release"))
            i += burst
            continue
        steps.append(dict(op="d", s=rng.randrange(nseries)))
        i += 1
        x = rng.random()
        if ndisp == 1 and x < 0.02:
            steps.append(dict(op="q"))
        elif x < (0.10 if not blocking else 0.03):
            steps.append(dict(op="y", n=rng.randint(1, 3)))
    nposts = max(4, 2 * npoints // max(1, fmn))
    return dict(conc=conc, bufsize=bufsize, fmn=fmn, fmw_ms=rng.choice([5, 10, 20]), timeout_ms=150, blocking=blocking,
                ndisp=ndisp, names=names_for(conc, [None] * nseries, "r%d" % rng.randrange(10 ** 6)), steps=steps,
                faults=fault_script(rng, nposts, rng.choice([0.3, 0.5, 0.6]), 3),
                quiesce=rng.random() < 0.3, shutdown=rng.random() < 0.9, origin="seeded")


def pile_scenario(rng):
    """shutdown of a backed-up blocking route: more concurrent callers than the shard's queue and batch hold"""
    conc = rng.choice([1, 1, 2, 3])
    per = rng.choice([1, 1, 2, 3])
    fmn = rng.choice([1, 1, 2, 3, 5])
    target = rng.randrange(conc)
    k = fmn + per + rng.randint(6, 30)
    shards = [target if rng.random() < 0.8 else rng.randrange(conc) for _ in range(k)]
    nwarm = rng.choice([0, 0, 2, 3])
    names = names_for(conc, [None] * nwarm + shards, "p%d" % rng.randrange(10 ** 6))
    steps = []
    for _ in range(rng.randint(2, 8) if nwarm else 0):
        steps.append(dict(op="d", s=rng.randrange(nwarm)))
        if rng.random() < 0.2:
            steps.append(dict(op="q"))
    pile = list(range(nwarm, nwarm + k))
    rng.shuffle(pile)
    return dict(conc=conc, bufsize=conc * per, fmn=fmn, fmw_ms=rng.choice([5, 10, 20]), timeout_ms=150, blocking=True,
                ndisp=1, names=names, steps=steps, faults=fault_script(rng, 6 + k // max(1, fmn), rng.choice([0.0, 0.3, 0.5]), 2),
                quiesce=False, shutdown=True, origin="seeded", pile=pile,
                pile_code=rng.choice(["503", "503", "500", "429", "reset", "timeout"]),
                recover=rng.choice(["after", "after", "after", "with"]))


def add_stalled_bodies(rng, sc):
    """seeded scenarios: some of the scripted 5xx / hang outcomes become 'status + headers, then a stalled (or trickling)
    body' (at most 2 per scenario, each costs the route one timeout); drawn from a random stream of its own, so that
    the scenarios are otherwise what they were"""
    n = 0
    for i, c in enumerate(sc["faults"]):
        if n >= 2:
            break
        if c in ("500", "503", "timeout") and rng.random() < 0.3:
            sc["faults"][i] = rng.choice(CODES["stall"])
            n += 1
    if sc.get("pile") and sc["pile_code"] in ("500", "503", "timeout") and rng.random() < 0.4:
        sc["pile_code"] = rng.choice(["500stall", "503stall"])
    return sc


# ------------------------------------------------------------------ driver + judgement
def run_driver(ctx, scens, name, timeout):
    for k, s in enumerate(scens):
        s["k"] = k
    sf = ctx.write_ndjson(name + "_scen.ndjson", scens)
    tf = os.path.join(ctx.out, name + "_trace.ndjson")
    res = ctx.go_test("gnet", run="^TestGNet$", timeout=timeout, expect_ok=False,
                      env=dict(VERIF_GN_SCEN=sf, VERIF_GN_TRACE=tf, VERIF_GN_PAR=ctx.pick(6, 8)))
    if res["rc"] != 0:
        if "panic: test timed out" in res["text"]:
            # the driver ran into its own deadline: slowness or a hang, not a panic of the route; never a verdict by itself
            raise Machinery("gnet driver timed out; log %s\n%s" % (res["log"], res["text"][-1500:]))
        if "panic:" in res["text"] or "fatal error:" in res["text"]:
            prog = []
            try:
                prog = ctx.read_ndjson("gnet_progress.ndjson")
            except Exception:
                pass
            return None, dict(log=res["log"], last=prog[-12:], tail=res["text"][-2500:])
        raise Machinery("gnet driver failed (rc=%s); log %s\n%s" % (res["rc"], res["log"], res["text"][-2000:]))
    events = ctx.read_ndjson(tf)
    bad = [e for e in events if e["ev"] == "harness"]
    if bad:
        raise Machinery("gnet driver could not establish a scenario's precondition (%d times), first: %s; log %s"
                        % (len(bad), bad[0].get("what"), res["log"]))
    return events, None


def split(events):
    blocks = []
    for e in events:
        if e["ev"] == "scen":
            blocks.append([e])
        else:
            blocks[-1].append(e)
    return blocks


def tlc_judge(ctx, blocks, tag, count=True):
    """one TLC run of the level-A trace spec over the given scenarios; returns {k: (viol list, info)}"""
    d = ctx.specdir("spec_" + tag)
    flat = [e for b in blocks for e in b]
    with open(os.path.join(d, "trace.ndjson"), "w") as f:
        for e in flat:
            f.write(json.dumps(e, separators=(",", ":")) + "\n")
    res = ctx.tlc("GrafanaNetTrace", "GrafanaNetTrace.cfg", workers=1, timeout=3000, expect_ok=False, count=False,
                  cwd=d, tag=tag, heap="6g")
    matched = None
    for s in ctx.tlc_printed(res, "@@TRACE"):
        matched = json.loads(s)["matched"]
    if not res["ok"] or matched != len(flat):
        nxt = flat[matched] if matched is not None and matched < len(flat) else None
        raise Machinery("level-A trace validation did not consume the trace (matched %s of %d, violated=%s, next %s); log %s"
                        % (matched, len(flat), res["violated"], json.dumps(nxt)[:300], res["log"]))
    verdicts = {}
    for s in ctx.tlc_printed(res, "@@V"):
        v = json.loads(s)
        verdicts[v["k"]] = v
    if len(verdicts) != len(blocks):
        raise Machinery("level-A trace validation judged %d of %d scenarios; log %s" % (len(verdicts), len(blocks), res["log"]))
    if count:
        ctx.cov["traces_validated_against_impl"] += len(blocks)
        ctx.cov["trace_events"] = ctx.cov.get("trace_events", 0) + len(flat)
    shutil.rmtree(d, ignore_errors=True)
    return verdicts, flat


def judge(ctx, events, scens, pool):
    blocks = split(events)
    skipped = 0
    try:
        skipped = sum(1 for e in ctx.read_ndjson("gnet_progress.ndjson") if e.get("at") == "skipped")
    except Exception:
        pass
    if len(blocks) + skipped != len(scens):
        raise Machinery("driver recorded %d of %d scenarios (%d skipped)" % (len(blocks), len(scens), skipped))
    if skipped:
        ctx.note("%d scenarios skipped by the driver after 6 executions stranded data" % skipped)
    # chunks of <= ~40k events, judged in parallel
    chunks, cur, n = [], [], 0
    for b in blocks:
        cur.append(b)
        n += len(b)
        if n > 40000:
            chunks.append(cur)
            cur, n = [], 0
    if cur:
        chunks.append(cur)
    futs = [pool.submit(tlc_judge, ctx, c, "lvlA%d" % i) for i, c in enumerate(chunks)]
    nviol = 0
    for f, c in zip(futs, chunks):
        verdicts, flat = f.result()
        pos = 0
        for b in c:
            k = b[0]["k"]
            v = verdicts[k]
            sc = scens[k]
            first = {}
            for clause, where in sorted(v["viol"], key=lambda x: x[1]):
                first.setdefault(clause, where)      # one report per scenario and clause: the first event that breaks it
            for clause, where in first.items():
                ev = flat[where - 1] if 0 < where <= len(flat) else None
                sig = "%s conc=%s %s origin=%s%s" % (clause, "1" if sc["conc"] == 1 else ">=2",
                                                     "blocking" if sc["blocking"] else "non-blocking", sc["origin"],
                                                     " shutdown-with-parked-callers" if sc.get("pile") else "")
                what = {
                    "ShutdownReturns": "Shutdown() of the route had not returned after %s s" % (ev or {}).get("limit_s", "?"),
                    "AllBufferedFlushed": "Shutdown() returned although metrics accepted before it returned (their Dispatch call had returned) were never acknowledged",
                    "AckedAtLeastOnce": "a metric accepted into the buffer was never contained in a 2xx-answered POST",
                    "NeverSkipped": "after a failed POST the next POST carrying one of its points was not the same batch",
                    "SeriesOrder": "points of one series were acknowledged out of received order",
                    "NonBlockingNeverBlocks": "Dispatch of a non-blocking route did not return within the bound",
                    "DropsCounted": "dropped metrics and the queue_full counter disagree",
                    "BlockingNeverDrops": "a blocking route dropped a metric",
                    "UnknownPoint": "a POST carried a point that was never dispatched (or under another series)",
                    "Harness": "the driver broke its own protocol",
                }.get(clause, clause)
                if clause == "Harness":
                    raise Machinery("harness protocol error in scenario %d at event %s" % (k, json.dumps(ev)))
                nviol += 1
                ctx.violation(sig, what, dict(scenario=sc, event=ev, verdict=v,
                                              trace=[e for e in b if e["ev"] != "ret" or e["st"] != "acc"][:400]))
            pos += len(b)
    return nviol


def selftest_binding(ctx, events):
    """corrupt recorded fields of accepted executions: TLC must name the matching clause (one run for all)"""
    blocks = split(events)
    cases = []

    def pick(pred):
        for b in blocks:
            r = pred(b)
            if r is not None:
                return r
        return None

    # 1. two points of one series swapped inside an acknowledged body
    def swap(b):
        for i, e in enumerate(b):
            if e["ev"] == "post" and e["st"] == "2xx":
                p = e["pts"]
                for x in range(len(p)):
                    for y in range(x + 1, len(p)):
                        if p[x][0] == p[y][0] and p[x][1] != p[y][1]:
                            nb = copy.deepcopy(b)
                            nb[i]["pts"][x], nb[i]["pts"][y] = nb[i]["pts"][y], nb[i]["pts"][x]
                            return nb
        return None
    cases.append(("SeriesOrder", pick(swap)))

    # 2. the successful retry of a failed batch removed
    def lose(b):
        for i, e in enumerate(b):
            if e["ev"] == "post" and e["st"] != "2xx":
                for j in range(i + 1, len(b)):
                    if b[j]["ev"] == "post" and b[j]["pts"] == e["pts"] and b[j]["st"] == "2xx":
                        nb = copy.deepcopy(b)
                        nb = [x for jj, x in enumerate(nb) if not (x["ev"] == "post" and x["pts"] == e["pts"] and jj >= j)]
                        if any(x["ev"] == "sdret" for x in nb):
                            return nb
                        return None
        return None
    cases.append(("AllBufferedFlushed", pick(lose)))

    # 3. the retry of a failed batch carries one point less
    def shrink(b):
        for i, e in enumerate(b):
            if e["ev"] == "post" and e["st"] != "2xx" and len(e["pts"]) >= 2:
                for j in range(i + 1, len(b)):
                    if b[j]["ev"] == "post" and b[j]["pts"] == e["pts"]:
                        nb = copy.deepcopy(b)
                        nb[j]["pts"] = nb[j]["pts"][1:]
                        return nb
        return None
    cases.append(("NeverSkipped", pick(shrink)))

    # 4. a drop the counter did not see
    def drop(b):
        for i, e in enumerate(b):
            if e["ev"] == "final" and e["drops"] > 0:
                nb = copy.deepcopy(b)
                nb[i]["drops"] -= 1
                return nb
        return None
    cases.append(("AckedAtLeastOnce", pick(drop)))

    # 5. Shutdown that did not return
    def hang(b):
        for i, e in enumerate(b):
            if e["ev"] == "sdret":
                nb = copy.deepcopy(b)
                nb[i] = dict(ev="sdtimeout", limit_s=20)
                return nb
        return None
    cases.append(("ShutdownReturns", pick(hang)))

    # 6. a point accepted while Shutdown ran (its Dispatch call returned between sdcall and sdret) is in no POST
    def late(b):
        i = next((j for j, e in enumerate(b) if e["ev"] == "sdcall"), None)
        if i is None:
            return None
        for j in range(i + 1, len(b)):
            if b[j]["ev"] in ("sdret", "sdtimeout"):
                break
            if b[j]["ev"] == "ret":
                nb = copy.deepcopy(b)
                for e in nb:
                    if e["ev"] == "post":
                        e["pts"] = [p for p in e["pts"] if p[1] != b[j]["id"]]
                return nb
        return None
    cases.append(("AllBufferedFlushed", pick(late)))

    cases = [(c, b) for c, b in cases if b is not None]
    if len(cases) < 3:
        raise Machinery("binding self-test: too few corruptible executions (%d)" % len(cases))
    bl = []
    for i, (c, b) in enumerate(cases):
        b = copy.deepcopy(b)
        b[0]["k"] = i
        bl.append(b)
    verdicts, _ = tlc_judge(ctx, bl, "selftest", count=False)
    for i, (c, b) in enumerate(cases):
        got = {x[0] for x in verdicts[i]["viol"]}
        if c not in got:
            raise Machinery("binding self-test failed: corruption for clause %s was judged %s" % (c, sorted(got)))
    ctx.cov["binding_selftests"] = "passed: " + ", ".join(c for c, _ in cases)


def run(ctx):
    q = ctx.quick()
    rng = random.Random(ctx.seed)
    ctx.specdir()
    # one TLC at a time: scenario generation, then the model checking jobs one after the other (in a thread, while
    # the Go driver runs), then the judgement of the recorded events
    with ThreadPoolExecutor(max_workers=1) as pool:
        scens = gen_model_scenarios(ctx, ctx.pick(45, 1000), pool)
        mc = model_check(ctx, pool)

        nmodel = len(scens)
        nrand, npts = ctx.pick((30, 300), (300, 400))
        for _ in range(nrand):
            scens.append(random_scenario(rng, rng.randint(npts // 2, npts + npts // 2)))
        npile = ctx.pick(24, 200)
        for _ in range(npile):
            scens.append(pile_scenario(rng))
        rng2 = random.Random(ctx.seed * 104729 + 17)
        for sc in scens[nmodel:]:
            add_stalled_bodies(rng2, sc)
        ctx.log("scenarios: %d from TLC simulation (%d outage) + %d seeded + %d seeded shutdown-of-a-backed-up-route"
                % (nmodel, sum(1 for x in scens[:nmodel] if x.get("pile")), nrand, npile))

        events, crashed = run_driver(ctx, scens, "c17", timeout=ctx.pick(900, 3000))
        model_check_join(ctx, mc)
        if crashed:
            ctx.violation("route-panics", "the route panicked while running a scenario", crashed)
            ctx.sample(dict(panic=crashed["tail"][-300:]))
            return
        nposts = sum(1 for e in events if e["ev"] == "post")
        nfail = sum(1 for e in events if e["ev"] == "post" and e["st"] != "2xx")
        nstall = sum(1 for e in events if e["ev"] == "post" and e["st"] == "stall")
        ndisp = sum(1 for e in events if e["ev"] == "disp")
        ndrop = sum(e["drops"] for e in events if e["ev"] == "final")
        nsd = sum(1 for e in events if e["ev"] == "sdcall")
        if nposts == 0 or nfail == 0 or ndisp == 0 or nsd == 0:
            raise Machinery("dead driver: posts=%d failed=%d dispatched=%d shutdowns=%d" % (nposts, nfail, ndisp, nsd))
        # shutdown of a backed-up route: callers really were parked when Shutdown was called, and calls returned
        # (points were accepted) while it ran
        pst = dict(scenarios=0, with_parked=0, parked_calls=0, with_accept_during_shutdown=0, accepted_during_shutdown=0,
                   still_blocked_at_end=0)
        for b in split(events):
            if not scens[b[0]["k"]].get("pile"):
                continue
            pst["scenarios"] += 1
            i = next((j for j, e in enumerate(b) if e["ev"] == "sdcall"), None)
            if i is None:
                continue
            pst["with_parked"] += b[i]["parked"] > 0
            pst["parked_calls"] += max(0, b[i]["parked"])
            j = next((x for x in range(i, len(b)) if b[x]["ev"] in ("sdret", "sdtimeout")), len(b))
            late = sum(1 for e in b[i:j] if e["ev"] == "ret")
            pst["with_accept_during_shutdown"] += late > 0
            pst["accepted_during_shutdown"] += late
            pst["still_blocked_at_end"] += sum(e["n"] for e in b if e["ev"] == "blocked")
        ctx.cov["shutdown_with_parked_callers"] = pst

        nviol = judge(ctx, events, scens, pool)
        if nviol == 0:
            # (a route that breaks the property may never get there; then the violations are the result)
            if pst["with_parked"] < pst["scenarios"] // 2 or pst["with_accept_during_shutdown"] < pst["scenarios"] // 3:
                raise Machinery("dead driver (shutdown of a backed-up route): %s" % json.dumps(pst))
            if nstall < ctx.pick(5, 50):
                raise Machinery("dead driver: only %d POSTs were answered with headers and a stalled body" % nstall)
            selftest_binding(ctx, events)

    cov = ctx.cov
    cov["evaluations"] = len(scens)
    cov["events_judged"] = ndisp + nposts
    distinct = set()
    for b, sc in zip(split(events), scens):
        if any(e["ev"] == "post" and e["st"] != "2xx" for e in b):
            distinct.add(json.dumps([sc[x] for x in ("conc", "bufsize", "fmn", "blocking", "ndisp", "steps", "faults", "shutdown")]))
    cov["distinct_nontrivial"] = len(distinct)
    cov["posts"] = nposts
    cov["failed_posts"] = nfail
    cov["failed_posts_stalled_body"] = nstall
    cov["dispatched"] = ndisp
    cov["dropped_counted"] = ndrop
    cov["shutdowns"] = nsd
    cov["rule"] = ("scenarios = environment histories of finished behaviours of GrafanaNet.tla (TLC simulation: 2 workers, "
                   "buffer 1-2 per worker, FlushMaxNum 1-2, <= 4 points over 2 series, <= 3 failures, with/without shutdown) "
                   "+ seeded scenarios (concurrency 1-4, 1-8 slots per worker, FlushMaxNum 1-7, 2-12 series, 1-3 dispatcher "
                   "goroutines, 30-60 % failing POSTs of kinds 400/429/500/503/hang-past-timeout/reset/500 or 503 status and headers "
                   "followed by a response body that stalls or trickles until the client gives up, endpoint holds with "
                   "bursts larger than the buffers, shutdown with non-empty buffers) "
                   "+ shutdown of a backed-up blocking route (TLC outage behaviours: 1-2 workers, 1-2 slots, FlushMaxNum 1-2, <= 6 "
                   "concurrent callers; seeded: concurrency 1-3, 1-3 slots per worker, FlushMaxNum 1-5, 8-40 concurrent callers "
                   "of which most are parked on one full queue, endpoint answering 429/500/503/reset/hanging/stalling in the body until Shutdown "
                   "waits or until just before it); every Dispatch and every POST of every "
                   "execution is evaluated by TLC (GrafanaNetTrace.tla); evaluations = executions (scenarios run on the real route); "
                   "distinct = distinct (configuration, steps, fault sequence) in whose execution at least one POST failed")
    ex = next((s for s in scens if s["origin"] == "tlc" and s["faults"]), scens[0])
    ctx.sample(dict(origin="tlc", blocking=ex["blocking"], bufsize=ex["bufsize"], fmn=ex["fmn"], steps=ex["steps"], faults=ex["faults"],
                    shutdown=ex["shutdown"]))
    ex = scens[-1]
    ctx.sample(dict(origin="seeded", family="shutdown of a backed-up blocking route", conc=ex["conc"], bufsize=ex["bufsize"],
                    fmn=ex["fmn"], callers=len(ex["pile"]), pile_code=ex["pile_code"], recover=ex["recover"],
                    first_faults=ex["faults"][:6]))
    ex = scens[nmodel]
    ctx.sample(dict(origin="seeded", conc=ex["conc"], bufsize=ex["bufsize"], fmn=ex["fmn"], blocking=ex["blocking"],
                    ndisp=ex["ndisp"], first_steps=ex["steps"][:10], first_faults=ex["faults"][:10]))
    ctx.assumptions += [
        "the acknowledgement order is the order in which the endpoint received the POSTs (one mutex in the test server)",
        "liveness is observed with deadlines: accepted-but-unacknowledged after 30 s, Dispatch of a non-blocking route "
        "pending for 5 s, Shutdown pending for 20 s (normal: milliseconds)",
        "'parked on the full queue' and 'Shutdown is waiting' are read from the goroutine states (runtime.Stack: chan send "
        "under (*GrafanaNet).Dispatch; a blocked (*GrafanaNet).Shutdown); they only steer the environment (when Shutdown is "
        "called, when the endpoint recovers); a Dispatch call counts as accepted when it has returned",
        "the shard function of the model is an arbitrary fixed function of the series; series names of the generated "
        "scenarios are chosen so that FNV-1a(name) % concurrency equals it",
    ]
    cov["trusted_base"] = ["TLC", "harness/gnet driver and its scripted endpoint (record only)",
                           "snappy/msgp decoding of the request bodies by the vendored libraries"]
