"""C04 — forwarded line = rewritten name + untouched value/timestamp; buffers isolated.

1. TLC model-checks spec/BufIso.tla (caller buffer vs. relay-owned copies vs. late consumers); the
   named deviations (no copy, aggregator aliasing the caller's buffer, writing after the hand-off,
   writing into the caller's buffer) must violate the isolation invariants.
2. TLC enumerates (rule list, name) cases of spec/Rewrite.tla (spec/RewriteGen.tla) with the rewritten
   name and forwarded line the specification expects; harness/rw applies the real
   rewriter.New(...).Do and a real table.Table + capture route; expectation (TLC) vs. observation.
3. harness/rw records hand-off / reuse / delivery traces of a real Table fed by direct Dispatch calls
   and by the real input.Plain.Handle from a reader that overwrites the scanner's buffer, consumed by
   capture routes (slices kept), a real destination behind a loopback endpoint that reads late and a
   real aggregator parked inside a flush; spec/BufIsoTrace.tla (TLC) replays them in the faithful
   BufIso machine with the forwarded content computed by Rewrite.tla.
"""
import copy, hashlib, json, os, random
from concurrent.futures import ThreadPoolExecutor
from vlib.core import Machinery

LEVEL = "model_checking"

FAMILIES = ["lit", "not", "rx", "rxg", "list"]
ISO_INV = ["HeldIntact", "DeliveredIntact", "SameForAll", "NotRetained"]


def b2s(a):
    return bytes(a).decode("latin-1")


# ------------------------------------------------------------------ 1. model checking
DEVIATIONS = {"nocopy": (["HeldIntact", "DeliveredIntact"], None), "aggalias": (["DeliveredIntact", "SameForAll"], None),
              "mutate": (["HeldIntact", "DeliveredIntact"], None), "clobber": ([], "CallerUntouched")}


def mc_faithful(ctx):
    big = not ctx.quick()
    # quick: 33 k states; thorough: 4.2 M states (measured)
    consts = dict(Consumers={"k1", "dest", "agg"}, Contents={"x", "y"}, MaxLines=3 if big else 2, Dev="")
    return ctx.tlc("BufIso", "BufIso_mc.cfg", consts=consts, workers=4 if big else 3, invariants=ISO_INV,
                   props=["CallerUntouched"], timeout=3000)


def mc_deviation(ctx, dev):
    """non-vacuity: the named deviation is rejected, and by the content invariants, not only by the
    structural one (NotRetained)"""
    invs, prop = DEVIATIONS[dev]
    small = dict(Consumers={"k1", "agg"}, Contents={"x", "y"}, MaxLines=2)
    r = ctx.tlc("BufIso", "BufIso_mc.cfg", consts=dict(small, Dev=dev), workers=1, invariants=invs or None,
                props=[prop] if prop else None, expect_ok=False, count=False, timeout=600)
    if not r["violated"]:
        raise Machinery("deviation %s of BufIso.tla is not rejected (vacuous invariants); log %s" % (dev, r["log"]))
    return dev


# ------------------------------------------------------------------ 2. generated cases
def name_max(ctx, fam):
    return 3 if ctx.quick() or fam in ("rx", "rxg") else 4


def gen_family(ctx, fam):
    big = not ctx.quick()
    # development aid (trying mutants of the Go code): the generated cases are a pure function of the
    # spec text and the constants, so they may be reused when VERIF_C04_GENCACHE names a directory
    cache = None
    if os.environ.get("VERIF_C04_GENCACHE"):
        h = hashlib.md5()
        for f in ("Rewrite.tla", "RewriteGen.tla", "RewriteGen.cfg"):
            h.update(open(os.path.join(os.path.dirname(os.path.dirname(os.path.abspath(__file__))), "spec", f), "rb").read())
        cache = os.path.join(os.environ["VERIF_C04_GENCACHE"], "c04gen_%s_%s_%s.json" % (fam, big, h.hexdigest()[:10]))
        if os.path.exists(cache):
            ctx.note("generated cases of family %s reused from %s" % (fam, cache))
            cs = json.load(open(cache))
            for c in cs:
                c["outs"] = [tuple(bytes(x) for x in o) for o in c["outs"]]
            return cs
    r = ctx.tlc("RewriteGen", "RewriteGen.cfg", workers=1, timeout=3000, heap="6g",
                consts=dict(Family=fam, NameMax=name_max(ctx, fam), Big=big), tag="gen_" + fam)
    cases = [json.loads(x) for x in ctx.tlc_printed(r, "@@C")]
    r["text"] = ""
    if not cases:
        raise Machinery("RewriteGen produced no cases for family %s" % fam)
    for c in cases:
        c["fam"] = fam
        # compact: byte strings instead of lists of integers
        c["outs"] = [(bytes(o["n"]), bytes(o["e"]), bytes(o["f"])) for o in c["outs"]]
    if cache:
        cases = [dict(c, outs=[[list(x) for x in o] for o in c["outs"]]) for c in cases]
        os.makedirs(os.path.dirname(cache), exist_ok=True)
        json.dump(cases, open(cache + ".tmp%d" % os.getpid(), "w"))
        os.replace(cache + ".tmp%d" % os.getpid(), cache)
    if cache:
        for c in cases:
            c["outs"] = [tuple(bytes(x) for x in o) for o in c["outs"]]
    return cases


def rule_text(r):
    def rx(x):
        s = "^" if x["astart"] else ""
        for k, a in enumerate(x["items"], 1):
            s += "(" * sum(1 for g in x["groups"] if g[0] == k)
            if not a["neg"] and len(a["cs"]) == 1:
                s += b2s(a["cs"]) if chr(a["cs"][0]).isalnum() else "\\" + b2s(a["cs"])
            elif a["neg"] and not a["cs"]:
                s += "."
            else:
                s += "[" + ("^" if a["neg"] else "") + b2s(a["cs"]) + "]"
            s += "+" if a["plus"] else ""
            s += ")" * sum(1 for g in x["groups"] if g[1] == k)
        return s + ("$" if x["aend"] else "")
    if r["re"]:
        old = "/" + rx(r["rx"]) + "/"
        new = "".join(chr(t["c"]) if t["k"] == "lit" else ("${%d}" if t["br"] else "$%d") % t["n"] for t in r["tpl"])
    else:
        old, new = b2s(r["old"]), b2s(r["new"])
    no = {"none": "", "lit": b2s(r["notl"]), "re": "/" + rx(r["notrx"]) + "/"}[r["notk"]]
    return "old=%r new=%r not=%r max=%d" % (old, new, no, r["max"])


def tlc_stage(ctx):
    """all TLC work that does not depend on the real code runs concurrently (separate JVMs); the Go
    build cache is warmed meanwhile"""
    ctx.specdir()
    devs = ["nocopy", "mutate"] if ctx.quick() else sorted(DEVIATIONS)
    skipmc = bool(os.environ.get("VERIF_C04_SKIPMC"))     # development aid for trying mutants of the Go code
    if skipmc:
        ctx.note("model checking of BufIso.tla skipped (VERIF_C04_SKIPMC)")
        devs = []
    with ThreadPoolExecutor(max_workers=5) as ex:
        warm = ex.submit(lambda: ctx.go_test("rw", run="^TestNothing$", timeout=1500))
        fam = [ex.submit(gen_family, ctx, f) for f in FAMILIES]
        mc = ex.submit((lambda c: None) if skipmc else mc_faithful, ctx)
        dv = [ex.submit(mc_deviation, ctx, d) for d in devs]
        per_fam = [f.result() for f in fam]
        mc.result()
        ctx.cov["deviations_rejected"] = [d.result() for d in dv]
        warm.result()
    return [c for cs in per_fam for c in cs]


def run_cases(ctx, cases):
    for i, c in enumerate(cases):
        c["gid"] = i
    ctx.log("TLC generated %d rule lists, %d (rule list, name) cases" % (len(cases), sum(len(c["outs"]) for c in cases)))
    cf = ctx.write_ndjson("rw_cases.ndjson", [dict(gid=c["gid"], rules=c["rules"], val=c["val"], ts=c["ts"], names=[list(o[0]) for o in c["outs"]])
                                             for c in cases])
    of = ctx.out + "/rw_out.ndjson"
    scn = scenarios(ctx, cases)
    sf = ctx.write_ndjson("iso_scn.ndjson", scn)
    ctx.go_test("rw", run="^(TestRWCases|TestIso)$", timeout=3000,
                env=dict(VERIF_RW_CASES=cf, VERIF_RW_OUT=of, VERIF_RW_SCN=sf, VERIF_RW_TRACE=ctx.out + "/iso_trace.ndjson",
                         VERIF_RW_INFO=ctx.out + "/iso_info.ndjson"))
    outs = {o["gid"]: o for o in ctx.read_ndjson(of)}
    if len(outs) != len(cases):
        raise Machinery("driver answered %d of %d rule lists" % (len(outs), len(cases)))
    nev = nontriv = delivered = 0
    for c in cases:
        o = outs[c["gid"]]
        kind = "list" if len(c["rules"]) > 1 else ("regex" if c["rules"][0]["re"] else "literal")
        notk = "+".join(sorted({r["notk"] for r in c["rules"]}))
        texts = [rule_text(r) for r in c["rules"]]
        if o["err"]:
            ctx.violation("rule-rejected fam=%s kind=%s" % (c["fam"], kind),
                          "rewriter.New rejects a rule the documentation allows: %s" % o["err"], dict(rules=texts))
            continue
        got = {bytes(x["n"]): x for x in o["outs"]}
        o["outs"] = None
        line_of = lambda n: (n + b" " + bytes(c["val"]) + b" " + bytes(c["ts"])).decode("latin-1")
        for (n, e, f) in c["outs"]:
            g = got.get(n)
            if g is None:
                raise Machinery("driver skipped a name")
            nev += 1
            if e != n:
                nontriv += 1
            if bytes(g["do"]) != e:
                ctx.violation("rewrite-do fam=%s kind=%s not=%s" % (c["fam"], kind, notk),
                              "rules %s on name %r: RW.Do gives %r, specification %r" % (
                                  texts, n.decode("latin-1"), b2s(g["do"]), e.decode("latin-1")),
                              dict(rules=texts, go_rules=o["texts"], name=n.decode("latin-1"), got=b2s(g["do"]),
                                   expect=e.decode("latin-1")))
            if g["got"]:
                delivered += 1
                nev += 1
                if bytes(g["tbl"]) != f:
                    ctx.violation("forwarded-line fam=%s kind=%s not=%s" % (c["fam"], kind, notk),
                                  "rules %s, line %r: the table forwarded %r, specification %r" % (
                                      texts, line_of(n), b2s(g["tbl"]), f.decode("latin-1")),
                                  dict(rules=texts, go_rules=o["texts"], line=line_of(n), got=b2s(g["tbl"]),
                                       expect=f.decode("latin-1")))
    if delivered == 0:
        raise Machinery("the table path delivered nothing (dead driver)")
    ncase = sum(len(c["outs"]) for c in cases)
    if delivered < ncase:
        ctx.note("%d of %d generated lines were not delivered by the table (not a C04 matter)" % (ncase - delivered, ncase))
    c0 = next(c for c in cases if c["fam"] == "list")
    e0 = next((o for o in c0["outs"] if o[1] != o[0]), c0["outs"][0])
    ctx.sample(dict(rules=[rule_text(r) for r in c0["rules"]], name=e0[0].decode("latin-1"), forwarded=e0[2].decode("latin-1")))
    return scn, nev, nontriv


# ------------------------------------------------------------------ 3. isolation traces
def scenarios(ctx, cases):
    rng = random.Random(ctx.seed * 1000003 + 11)
    q = ctx.quick()
    pool = [c["rules"] for c in cases]
    def rules():
        x = rng.random()
        if x < 0.15:
            return []
        if x < 0.5:
            return rng.choice([c["rules"] for c in cases if c["fam"] == "list"])
        return rng.choice(pool)
    scn = []
    def add(**kw):
        d = dict(s=len(scn), rules=rules(), path="direct", n=30, agg=False, dest=False, iobuf=64, pad=0, chunk="mix")
        d.update(kw)
        scn.append(d)
    nrep = 2 if q else 6
    n = 40 if q else 100
    for rep in range(nrep):
        # the aggregator is handed slices of the copy only where no rewriter replaced the name:
        # half of the aggregator scenarios run without rewriters
        norw = dict(rules=[]) if rep % 2 == 0 else {}
        add(path="direct", n=n)
        # plain path: bufio.Scanner rewinds its 4096-byte buffer after > 2048 consumed bytes; padded
        # names make that happen several times while earlier lines are still pending
        add(path="plain", n=n, chunk="line", pad=rng.choice([60, 120]))
        add(path="plain", n=n, chunk="mix", pad=rng.choice([0, 90]))
        add(path="direct", n=n, agg=True, **norw)
        add(path="plain", n=n, agg=True, chunk=rng.choice(["line", "mix", "multi"]), pad=rng.choice([80, 150]), **norw)
        add(path="direct", n=n * 2, dest=True, iobuf=rng.choice([1, 7, 64]))
        add(path="plain", n=n * 2, dest=True, iobuf=rng.choice([1, 3, 4096]), chunk="mix", pad=rng.choice([0, 50]))
    # one long residence scenario: enough bytes to fill the socket buffers so that lines wait in the relay
    add(path="direct", n=400 if q else 2500, dest=True, iobuf=1, pad=40 if q else 150, rules=[])
    return scn


def blocks_of(events):
    blocks, cur = [], None
    for e in events:
        if e["ev"] == "scn":
            cur = [e]
            blocks.append(cur)
        else:
            cur.append(e)
    return blocks


WINDOW = 40


def windowed(block):
    """Projection of one scenario's trace onto windows of WINDOW consecutive hand-offs (ids renumbered
    from 1 in each window).  Lines are independent in the specification, so a trace is accepted iff
    its projections are; the state TLC carries stays small.  A fill belongs to the window of the
    next hand-off; events the driver could not attribute (id 0) stay in the first window."""
    scn0, rest = block[0], block[1:]
    nxt, cur = [None] * len(rest), None
    for i in range(len(rest) - 1, -1, -1):
        if rest[i]["ev"] == "handoff":
            cur = rest[i]["id"]
        nxt[i] = cur
    last = max([e["id"] for e in rest if e["ev"] == "handoff"] or [1])
    wins = {}
    for i, e in enumerate(rest):
        if e["ev"] == "fill":
            w = ((nxt[i] or last) - 1) // WINDOW
            wins.setdefault(w, []).append(e)
        else:
            w = max(0, (e["id"] - 1) // WINDOW) if e["id"] <= last else 0
            e2 = dict(e)
            if e["id"] > 0 and e["id"] <= last:
                e2["id"] = e["id"] - w * WINDOW
            wins.setdefault(w, []).append(e2)
    return [[dict(scn0, w=w)] + wins[w] for w in sorted(wins)]


def validate(ctx, blocks, scn, tag, report=True, max_rounds=12):
    """TLC decides every event.  A rejected scenario is reported and removed, the rest validated again."""
    blocks = list(blocks)
    rejected = 0
    for rnd in range(max_rounds):
        flat = [e for b in blocks for e in b]
        if not flat:
            break
        f = ctx.write_ndjson("iso_%s_%d.ndjson" % (tag, rnd), flat)
        ok, matched, res = ctx.validate_traces("BufIsoTrace", "BufIsoTrace.cfg", f, len(flat), len(blocks),
                                               tag="%s%d" % (tag, rnd), timeout=3000, heap="8g")
        if ok:
            return rejected, None
        if res["violated"] and matched is None:
            raise Machinery("BufIsoTrace: invariant %s violated without a matched prefix; log %s" % (res["violated"], res["log"]))
        if matched is None:
            raise Machinery("BufIsoTrace gave no verdict; log %s" % res["log"])
        if not report:
            return 1, matched
        pos = 0
        for bi, b in enumerate(blocks):
            if matched < pos + len(b):
                e = b[matched - pos]
                s = scn[b[0]["s"]]
                sig = "iso ev=%s c=%s path=%s agg=%s dest=%s" % (e["ev"], e.get("c", "agg" if e["ev"] == "aggsaw" else "-"),
                                                                  s["path"], s["agg"], s["dest"])
                detail = dict(scenario={k: v for k, v in s.items() if k != "rules"},
                              rules=[rule_text(r) for r in s["rules"]], event=readable(e),
                              before=[readable(x) for x in b[max(0, matched - pos - 12):matched - pos]],
                              invariant=res["violated"])
                shown = b2s(e.get("at", e.get("b", e.get("name", []))))[:160]
                what = {"deliver": "consumer %s read %r for hand-off %s: not the line the specification forwards" % (e.get("c"), shown, e.get("id")),
                        "end": "the slice kept by %s shows %r at the end of the scenario for hand-off %s: altered after delivery" % (e.get("c"), shown, e.get("id")),
                        "aggsaw": "the aggregator worked on name %r for hand-off %s: not the rewritten name" % (shown, e.get("id")),
                        "ret": "Dispatch left %r in the caller's buffer (hand-off %s): the relay wrote to it" % (shown, e.get("id")),
                        }.get(e["ev"], "event %s (hand-off %s) rejected by BufIsoTrace" % (e["ev"], e.get("id")))
                ctx.violation(sig, what, detail)
                rejected += 1
                del blocks[bi]
                break
            pos += len(b)
        else:
            raise Machinery("matched prefix beyond the trace")
    else:
        ctx.note("more than %d rejected scenarios; stopped re-validating" % max_rounds)
    return rejected, None


def readable(e):
    r = dict(e)
    for k in ("b", "at", "name"):
        if k in r:
            r[k] = b2s(r[k])
    r.pop("rules", None)
    return r


def selftest(ctx, blocks):
    """binding: one corrupted byte in an accepted trace must be rejected exactly there"""
    agg = next(b for b in blocks if any(e["ev"] == "aggsaw" for e in b))
    flat = copy.deepcopy([e for b in (blocks[:1] + [agg]) for e in b])
    done = []
    kinds = (("aggsaw", "name"),) if ctx.quick() else (("deliver", "at"), ("end", "b"), ("aggsaw", "name"), ("ret", "b"))
    for kind, field in kinds:
        idx = next((i for i, e in enumerate(flat) if e["ev"] == kind and len(e[field]) > 0 and i > 3), None)
        if idx is None:
            continue
        mut = copy.deepcopy(flat)
        mut[idx][field][-1] ^= 1
        f = ctx.write_ndjson("iso_self_%s.ndjson" % kind, mut)
        ok, matched, _ = ctx.validate_traces("BufIsoTrace", "BufIsoTrace.cfg", f, len(mut), 0, tag="self_" + kind)
        if ok or matched != idx:
            raise Machinery("binding self-test: corrupted %s.%s at line %d not rejected there (matched %s)" % (kind, field, idx, matched))
        done.append(kind)
    if len(done) < len(kinds):
        raise Machinery("binding self-test found too few event kinds: %s" % done)
    ctx.cov["binding_selftests"] = done


def run_iso(ctx, scn):
    tf = ctx.out + "/iso_trace.ndjson"
    nf = ctx.out + "/iso_info.ndjson"
    events = ctx.read_ndjson(tf)
    blocks = blocks_of(events)
    if len(blocks) != len(scn):
        raise Machinery("driver ran %d of %d scenarios" % (len(blocks), len(scn)))
    blocks = [w for b in blocks for w in windowed(b)]
    cnt = {}
    for e in events:
        k = e["ev"] + ("/" + e["c"] if "c" in e else "")
        cnt[k] = cnt.get(k, 0) + 1
    ctx.log("iso events: %s" % cnt)
    for need in ("handoff", "deliver/k1", "deliver/k2", "deliver/dest", "end/k1", "aggsaw", "ret"):
        if cnt.get(need, 0) == 0:
            raise Machinery("dead driver: no %s events" % need)
    info = ctx.read_ndjson(nf)
    ctx.cov["dest_lines_still_queued_in_relay_at_release"] = sum(i.get("dest_buffered_at_release", 0) for i in info)
    ctx.cov["aggregator_deferred_outputs"] = sum(i.get("agg_out", 0) for i in info)
    miss = sum(i.get("agg_missing", 0) for i in info)
    if miss:
        ctx.note("%d aggregator outputs did not arrive within the deadline (not a C04 matter)" % miss)
    rejected, _ = validate(ctx, blocks, scn, "iso")
    if rejected == 0:
        selftest(ctx, blocks)
    ctx.cov["iso_scenarios"] = len(scn)
    ctx.cov["iso_events"] = cnt
    b = next(x for x in blocks if x[0]["s"] == 1)
    fill = next(e for e in b if e["ev"] == "fill")
    dl = next((e for e in b if e["ev"] == "deliver"), None)
    if dl:
        ctx.sample(dict(path=scn[1]["path"], rules=[rule_text(r) for r in scn[1]["rules"]], raw=b2s(fill["b"]), delivered=b2s(dl["at"])))
    return len(events), sum(1 for e in events if e["ev"] in ("deliver", "end", "aggsaw", "ret"))


def chain_stage(ctx):
    """run-time changes of the rewriter list (RewriteChain.tla)"""
    q = ctx.quick()
    base = dict(Family="list", Big=False, NameMax=3, CNames="few")
    # exhaustive: the table as it is (no memory) and a memory dropped on every change satisfy ChainOK; a memory of
    # results per name that survives DelRewriter is rejected
    ctx.tlc("RewriteChain", "RewriteChain_mc.cfg", consts=dict(base, Memo="none", CDepth=ctx.pick(4, 5)), workers=ctx.pick(6, 8), timeout=3000)
    if not q:
        ctx.tlc("RewriteChain", "RewriteChain_mc.cfg", consts=dict(base, Memo="fresh_on_change", CDepth=5), workers=8, timeout=3000)
    r = ctx.tlc("RewriteChain", "RewriteChain_mc.cfg", consts=dict(base, Memo="kept_on_delete", CDepth=5), workers=6, expect_ok=False,
                count=False, timeout=3000, tag="nv_chain_memo")
    if r["violated"] != "ChainOK":
        raise Machinery("deviation kept_on_delete is not rejected by ChainOK (violated=%s): vacuity" % r["violated"])
    # histories with expectations
    num, depth = ctx.pick(300, 3000), ctx.pick(14, 20)
    r = ctx.tlc("RewriteChain", "RewriteChain_gen.cfg", workers=1, timeout=3000, heap="4g", tag="gen_chain", count=False,
                consts=dict(NameMax=3, CNames="all" if not q else "few", CDepth=depth),
                simulate="num=%d" % num, args=["-depth", str(depth + 3), "-seed", str(ctx.seed)])
    gen = [json.loads(x) for x in ctx.tlc_printed(r, "@@H")]
    if len(gen) != num:
        raise Machinery("RewriteChain generator printed %d of %d histories; log %s" % (len(gen), num, r["log"]))
    cf = ctx.write_ndjson("rwchain_cases.ndjson", [dict(h=h, steps=[dict(op=s["op"], rule=s["rule"] if s["op"] == "add" else {}, i=s["i"], n=s["n"])
                                                                      for s in g["steps"]]) for h, g in enumerate(gen)])
    of = os.path.join(ctx.out, "rwchain_out.ndjson")
    ctx.go_test("rw", run="^TestRWChain$", timeout=1500, env=dict(VERIF_RWCHAIN_CASES=cf, VERIF_RWCHAIN_OUT=of))
    outs = ctx.read_ndjson(of)
    if not outs or outs[-1]["h"] != -1 or len(outs) != num + 1:
        raise Machinery("rw chain driver result is incomplete (%d records for %d histories)" % (len(outs), num))
    ncmp = nchanged = nrep = 0
    for g, o in zip(gen, outs):
        seen = {}
        if len(o["steps"]) != len(g["steps"]):
            raise Machinery("rw chain: history %d has %d recorded steps for %d" % (o["h"], len(o["steps"]), len(g["steps"])))
        for k, (s, x) in enumerate(zip(g["steps"], o["steps"])):
            if s["op"] == "add" and x.get("err"):
                raise Machinery("rw chain: rule of the pool could not be built: %s" % x["err"])
            if s["op"] in ("add", "del") and (x.get("err") or x["len"] != s["len"]):
                ctx.violation("chain:%s-result" % s["op"], "history %d step %d: %s left %s rewriters in the table (error %r), expected %d"
                              % (o["h"], k, "AddRewriter" if s["op"] == "add" else "DelRewriter(%d)" % s["i"], x.get("len"), x.get("err"), s["len"]),
                              dict(history=hist_text(g, k)))
                break
            if s["op"] != "disp":
                continue
            ncmp += 1
            name = b2s(s["n"])
            prev = seen.get(name)
            if prev is not None:
                nrep += 1
                if prev != s["e"]:
                    nchanged += 1
            seen[name] = s["e"]
            if not x["got"] or x["line"] != s["f"]:
                chain = [rule_text(r) for r in s["rule"]]
                ctx.violation("chain:forwarded-name-not-of-chain-in-force%s" % (" name-seen-under-earlier-chain" if prev is not None and prev != s["e"] else ""),
                              "history %d step %d: %r dispatched with the rewriters %s in force was forwarded as %r, expected %r%s"
                              % (o["h"], k, name, chain, b2s(x["line"]) if x["got"] else None, b2s(s["f"]),
                                 (" (the same name was forwarded as %r under an earlier chain)" % b2s(prev)) if prev is not None else ""),
                              dict(history=hist_text(g, k)))
                break
    if nchanged < 20 and not ctx.violations:
        raise Machinery("rw chain: only %d dispatches of a name whose rewritten form changed with the chain" % nchanged)
    # binding self-test: the comparison is with the chain IN FORCE -- the expectation of the previous dispatch of the same name must differ
    ctx.cov["rewriter_chain_histories"] = dict(histories=num, steps=sum(len(g["steps"]) for g in gen), dispatches_compared=ncmp,
                                               names_dispatched_again=nrep, of_which_rewritten_differently_after_a_change=nchanged)
    return ncmp


def hist_text(g, upto):
    out = []
    for s in g["steps"][:upto + 1]:
        if s["op"] == "add":
            out.append("add " + rule_text(s["rule"]))
        elif s["op"] == "del":
            out.append("del %d" % s["i"])
        else:
            out.append("dispatch %r -> expect %r" % (b2s(s["n"]), b2s(s["e"])))
    return out


def run(ctx):
    cases = tlc_stage(ctx)
    scn, nev, nontriv = run_cases(ctx, cases)
    ntrace, nchecked = run_iso(ctx, scn)
    nchain = chain_stage(ctx)
    cov = ctx.cov
    cov["evaluations"] = nev + nchecked + nchain
    cov["distinct_nontrivial"] = nontriv
    cov["rule"] = ("evaluations = TLC-expected vs observed comparisons of (rule list, name) cases (RW.Do and the line captured "
                   "behind a real Table) + deliver/end/aggsaw/ret events decided by BufIsoTrace.tla; distinct_nontrivial = "
                   "distinct (rule list, name) cases whose rewritten name differs from the name; rule lists = families "
                   "lit (old x new x max), not (literal and /regex/ not-clauses), rx (all well-formed regexes of <= 2 atoms x "
                   "anchors x templates), rxg (capture groups, ${n}/$n), list (ordered lists of 2-3 rules) over all names "
                   "of <= %d bytes of {a,b,.} (3 for rx, rxg)" % (3 if ctx.quick() else 4))
    cov["trusted_base"] = ["TLC", "harness/rw (records only; builds regex text from the TLC-printed syntax tree; attributes "
                           "received bytes to hand-offs by their timestamp token)", "Go regexp for everything outside the "
                           "backtracking-free fragment (not exercised)"]
    ctx.assumptions += ["regex rules are exercised only in the backtracking-free fragment of Rewrite.tla (single-byte atoms, "
                        "greedy + on atoms disjoint from their successor, no empty matches, unambiguous $n spellings)",
                        "validation levels of the default configuration (medium/medium); lines the validator rejects are "
                        "handed off but not expected anywhere (C02)",
                        "delivery is not demanded (C01/C05/C06): only what is delivered is compared"]
