"""C05 — a healthy carbon connection carries the lines in order, once, unbroken.

1. TLC model-checks spec/BufWriter.tla (destination/bufwriter.go transcribed loop by loop; every
   sequence of Write/Flush calls, every answer of the underlying writer incl. errors and short
   writes) and spec/ConnStream.tla (relay nonBlockingSend -> Conn.In -> HandleData -> Writer ->
   socket, tick/manual flushes anywhere); named deviations must be rejected (non-vacuity).
2. R: TLC-generated behaviours (exhaustive for small B, -simulate for larger B) are replayed on the
   real exported destination.Writer; (nn, err, Buffered, Available, wire) after every call must equal
   the values TLC computed.  The recorded calls are additionally validated by TLC against
   spec/BufWriterTrace.tla (every call of the underlying writer is judged) for longer random call
   sequences with larger buffers.
3. T: real route+destination -> loopback endpoint, iobuf from 1 byte, connbuf 1..100, flush 1-50 ms,
   plain and pickle; the received byte stream is projected to line identities (pickle frames are
   decoded by CPython) and judged by TLC against spec/ConnStreamTrace.tla.
4. G: two connection generations of one destination without spool (spec/ConnStreamGen.tla, model-checked;
   deviation buffer_shared_across_conns rejected): the first connection's writer is held (verification
   hooks as scheduler gates) between taking a line and writing it, the endpoint cuts that connection, the
   relay reconnects, lines go over the new connection, the old writer is released late; the stream of the
   new, healthy connection is judged by the same ConnStreamTrace.tla (gens = 2).
"""
import concurrent.futures as cf
import copy, json, os, random, sys

from vlib.core import Machinery, VERIF

sys.path.insert(0, os.path.join(VERIF, "tools"))
import c05_unpickle  # noqa: E402

LEVEL = "model_checking"
BYTEMOD = 251
BW_DEVS_Q = ["n_off_by_one", "flush_drops_tail"]
BW_DEVS_T = ["n_off_by_one", "flush_drops_tail", "no_compaction", "dup_after_partial", "bypass_nonempty"]
CS_DEVS_Q = ["nl_first", "bypass_nonempty", "pfx_stale_long"]
CS_DEVS_T = ["nl_first", "nl_sometimes", "no_nl", "bypass_nonempty", "n_off_by_one", "pfx_stale_long"]
CG_DEVS = ["buffer_shared_across_conns"]


def lens_upto(b):
    return set(range(1, 3 * b + 1))


def par(jobs, nthreads):
    """run thunks concurrently (TLC runs are independent processes); re-raise the first failure"""
    if not jobs:
        return []
    with cf.ThreadPoolExecutor(max_workers=nthreads) as ex:
        futs = [ex.submit(j) for j in jobs]
        return [f.result() for f in futs]


# ------------------------------------------------------------------ 1. model checking
def model_check(ctx):
    q = ctx.quick()
    bw = [dict(B=1, MaxCalls=4), dict(B=2, MaxCalls=3), dict(B=3, MaxCalls=3), dict(B=4, MaxCalls=2)] if q else \
         [dict(B=1, MaxCalls=6, MaxFaults=2), dict(B=2, MaxCalls=5, MaxFaults=2), dict(B=3, MaxCalls=4, MaxFaults=2),
          dict(B=4, MaxCalls=3, MaxFaults=2), dict(B=5, MaxCalls=3, MaxFaults=1), dict(B=6, MaxCalls=3, MaxFaults=1)]
    jobs = []
    for c in bw:
        consts = dict(B=c["B"], Dev="", Lens=lens_upto(c["B"]), MaxCalls=c["MaxCalls"], MaxFaults=c.get("MaxFaults", 1))
        jobs.append(lambda consts=consts: ctx.tlc("BufWriterMC", "BufWriterMC.cfg", consts=consts, workers=ctx.pick(2, 4),
                                                  timeout=3000))
    cs = [dict(B=2, Q=1, N=3, LineLens={1, 3, 6}, Pickle=False),
          dict(B=3, Q=0, N=3, LineLens={2, 4, 9}, Pickle=False),
          dict(B=2, Q=2, N=3, LineLens={1, 5}, Pickle=True)] if q else \
         [dict(B=b, Q=qq, N=4, LineLens={1, b, b + 1, 3 * b}, Pickle=pk)
          for b in (1, 2, 3, 4) for qq in (0, 1, 2) for pk in (False, True) if not (pk and b in (1, 3))]
    for c in cs:
        consts = dict(c, Dev="")
        jobs.append(lambda consts=consts: ctx.tlc("ConnStream", "ConnStream_mc.cfg", consts=consts,
                                                  workers=ctx.pick(2, 4), timeout=3000))
    if not q:
        jobs.append(lambda: ctx.tlc("ConnStream", "ConnStream_live.cfg", workers=4, timeout=3000,
                                    consts=dict(B=2, Dev="", Q=1, N=3, LineLens={1, 3, 6}, Pickle=False)))
    # two connection generations of one destination (the old generation's writer may write arbitrarily late)
    cg = [dict(B=4, Q=2, N=3, LineLens={1, 3}), dict(B=2, Q=1, N=3, LineLens={1, 4})] if q else \
         [dict(B=b, Q=qq, N=4, LineLens={1, b - 1, b + 1}) for b in (2, 3, 4, 5) for qq in (1, 2)]
    for c in cg:
        consts = dict(c, Dev="")
        jobs.append(lambda consts=consts: ctx.tlc("ConnStreamGen", "ConnStreamGen_mc.cfg", consts=consts,
                                                  workers=ctx.pick(2, 4), timeout=3000))

    def dev_cg(d):
        r = ctx.tlc("ConnStreamGen", "ConnStreamGen_mc.cfg", workers=2, expect_ok=False, count=False, timeout=900,
                    consts=dict(B=4, Q=2, N=3, LineLens={1, 3}, Dev=d))
        if r["violated"] not in ("StreamsIntact", "PendingIntact", "AtRest2"):
            raise Machinery("deviation %s of ConnStreamGen.tla is not rejected (vacuity); log %s" % (d, r["log"]))
        return d

    for d in CG_DEVS:
        jobs.append(lambda d=d: dev_cg(d))

    # non-vacuity: named deviations are rejected
    def dev_bw(d):
        r = ctx.tlc("BufWriterMC", "BufWriterMC.cfg", workers=2, expect_ok=False, count=False, timeout=900,
                    consts=dict(B=2, Dev=d, Lens=lens_upto(2), MaxCalls=3, MaxFaults=1))
        if r["violated"] not in ("StreamOK", "ReturnOK", "FlushOK", "AccIsIota", "BWTypeOK"):
            raise Machinery("deviation %s of BufWriter.tla is not rejected (vacuity); log %s" % (d, r["log"]))
        return d

    def dev_cs(d):
        r = ctx.tlc("ConnStream", "ConnStream_mc.cfg", workers=2, expect_ok=False, count=False, timeout=900,
                    consts=dict(B=2, Dev=d, Q=1, N=3, LineLens={1, 3, 6}, Pickle=d.startswith("pfx_")))
        if r["violated"] not in ("StreamIsHandOffOrder", "AcceptedBytesInOrder", "AtRest", "Conservation"):
            raise Machinery("deviation %s of ConnStream.tla is not rejected (vacuity); log %s" % (d, r["log"]))
        return d

    for d in ctx.pick(BW_DEVS_Q, BW_DEVS_T):
        jobs.append(lambda d=d: dev_bw(d))
    for d in ctx.pick(CS_DEVS_Q, CS_DEVS_T):
        jobs.append(lambda d=d: dev_cs(d))
    par(jobs, ctx.pick(4, 5))
    ctx.cov["deviations_rejected"] = dict(BufWriter=ctx.pick(BW_DEVS_Q, BW_DEVS_T), ConnStream=ctx.pick(CS_DEVS_Q, CS_DEVS_T),
                                          ConnStreamGen=CG_DEVS)


# ------------------------------------------------------------------ 2. replay on destination.Writer
def generate_behaviours(ctx):
    q = ctx.quick()
    cache = os.environ.get("VERIF_C05_BEH_CACHE")
    if cache and ctx.out.find("scratch-") >= 0:       # development aid, scratch repository only
        ctx.note("behaviours taken from %s (generated by TLC in an earlier run)" % cache)
        return ctx.read_ndjson(cache)
    jobs = []
    # exhaustive for tiny buffers (every history of MaxCalls calls, faults anywhere)
    exh = [dict(B=1, MaxCalls=3), dict(B=2, MaxCalls=ctx.pick(2, 3))]
    if not q:
        exh.append(dict(B=3, MaxCalls=2))
    for c in exh:
        consts = dict(B=c["B"], Dev="", Lens=lens_upto(c["B"]), MaxCalls=c["MaxCalls"], MaxFaults=1, ArmChoices={1})
        jobs.append(lambda consts=consts: ctx.tlc("BufWriterGen", "BufWriterGen.cfg", consts=consts, workers=1, timeout=3000))
    # simulation for the larger ones
    sims = [(3, 5, 200), (4, 6, 250)] if q else \
           [(1, 8, 1000), (2, 8, 2000), (3, 8, 2500), (4, 8, 2500), (5, 7, 2000), (6, 7, 2000)]
    for b, calls, num in sims:
        consts = dict(B=b, Dev="", Lens=lens_upto(b), MaxCalls=calls, MaxFaults=2, ArmChoices=set(range(1, calls + 2)))
        jobs.append(lambda consts=consts, num=num, calls=calls: ctx.tlc(
            "BufWriterGen", "BufWriterGen.cfg", consts=consts, workers=1, timeout=3000,
            simulate="num=%d" % num, args=["-depth", str(calls * 8 + 4), "-seed", str(ctx.seed)]))
    results = par(jobs, ctx.pick(4, 6))
    seen, behs = set(), []
    for r in results:
        for s in ctx.tlc_printed(r, "@@B"):
            if s in seen:
                continue
            seen.add(s)
            b = json.loads(s)
            b["h"] = len(behs)
            behs.append(b)
    if len(behs) < 100:
        raise Machinery("behaviour generation produced only %d behaviours" % len(behs))
    ctx.write_ndjson("c05_behaviours_full.ndjson", behs)
    return behs


def replay_writer(ctx, behs, extra):
    """one run of the driver: the TLC-generated behaviours (h < len(behs)) and the random call
    sequences `extra` (judged afterwards by BufWriterTrace.tla)"""
    scen = [dict(h=b["h"], B=b["B"], calls=[dict(op=c["op"], len=c["len"], first=c["first"], script=c["script"])
                                            for c in b["calls"]]) for b in behs] + extra
    f = ctx.write_ndjson("c05_behaviours.ndjson", scen)
    res = ctx.go_test("c05", run="^TestC05Writer$", env=dict(VERIF_C05_BEH=f, VERIF_C05_BEH_OUT="c05_writer_obs.ndjson"),
                      timeout=1800, expect_ok=False)
    if res["rc"] != 0:
        if "panic:" in res["text"] or "fatal error:" in res["text"]:
            last = ctx.read_ndjson("c05_writer_progress.ndjson")[-1:]
            h = last[0]["h"] if last else -1
            ctx.violation("writer-replay panic", "destination.Writer panicked while replaying behaviour %d" % h,
                          dict(behaviour=behs[h] if 0 <= h < len(behs) else None, tail=res["text"][-2000:]))
            return 0, 0
        raise Machinery("writer driver failed (rc=%s); log %s\n%s" % (res["rc"], res["log"], res["text"][-2000:]))
    obs = {o["h"]: o for o in ctx.read_ndjson("c05_writer_obs.ndjson")}
    if len(obs) != len(scen):
        raise Machinery("writer driver recorded %d of %d behaviours" % (len(obs), len(scen)))
    ctx.writer_obs = obs
    ncalls, drift = 0, 0
    for b in behs:
        o = obs[b["h"]]
        accepted = []          # byte values the real Writer has accepted so far (from the observed return counts)
        errored = False
        for ci, (exp, got) in enumerate(zip(b["calls"], o["rets"])):
            ncalls += 1
            want = dict(nn=exp["nn"], err=exp["err"], buffered=exp["buffered"], avail=b["B"] - exp["buffered"],
                        wire=[x % BYTEMOD for x in exp["wire"]])
            have = dict(nn=got["nn"], err=got["err"], buffered=got["buffered"], avail=got["avail"], wire=got["wire"])
            if exp["op"] == "w":
                accepted += [(exp["first"] + i) % BYTEMOD for i in range(max(0, got["nn"]))]
            errored = errored or bool(got["err"])
            bad = [k for k in ("nn", "err", "wire", "buffered", "avail") if want[k] != have[k]]
            if bad:
                # What the statement of C05 is about: return values, order/intactness of the wire, nothing lost.
                # A difference only in WHEN bytes reach the wire or in Buffered()/Available() is a different
                # (still correct) buffering policy: model drift, not a violation.
                stream_bad = []
                if want["nn"] != have["nn"] or want["err"] != have["err"]:
                    stream_bad.append("nn" if want["nn"] != have["nn"] else "err")
                if have["wire"] != accepted[:len(have["wire"])]:
                    stream_bad.append("wire")
                if not errored and have["buffered"] + len(have["wire"]) != len(accepted):
                    stream_bad.append("buffered")
                if not errored and exp["op"] == "f" and have["wire"] != accepted:
                    stream_bad.append("wire")
                if not stream_bad:
                    drift += 1
                    continue
                bad = stream_bad + [k for k in bad if k not in stream_bad]
                faulty = any(s["e"] or s["k"] < u["len"] for s, u in zip(exp["script"], got["u"]))
                sig = "writer-replay %s differs after %s (%s underlying writer)" % (
                    bad[0], "Write" if exp["op"] == "w" else "Flush", "faulty" if faulty else "healthy")
                ctx.violation(sig, "behaviour %d call %d (B=%d): specification expects %s, destination.Writer gave %s" % (
                    b["h"], ci, b["B"], json.dumps({k: want[k] for k in bad}), json.dumps({k: have[k] for k in bad})),
                    dict(behaviour=b, observed=o))
                break
            if len(got["u"]) != len(exp["script"]):
                drift += 1
    if drift:
        ctx.note("model-drift BufWriter.tla: %d calls differ from the model only in buffering policy (number of underlying "
                 "writes, Buffered()/Available(), when bytes reach the wire); return values and stream equal" % drift)
        ctx.cov["drift"] = True
    return len(behs), ncalls


# -------------------------------------------- 2b. longer random call sequences judged by BufWriterTrace.tla
def random_behaviours(ctx, h0):
    rng = random.Random(ctx.seed * 7919 + 5)
    q = ctx.quick()
    groups = {}
    nb = ctx.pick(24, 400)
    for i in range(nb):
        b = rng.choice([5, 64] if q else [1, 2, 3, 5, 8, 16, 33, 64])
        ncalls = rng.choice([10, 25, 40] if q else [20, 60, 120])
        calls, first = [], 1
        fault_at = rng.randrange(ncalls * 2)        # half of the behaviours have no fatal fault
        for k in range(ncalls):
            if rng.random() < 0.25:
                c = dict(op="f", len=0, first=0, script=[])
            else:
                ln = rng.choice([1, 2, max(1, b - 1), b, b + 1, 2 * b, 2 * b + 1, 3 * b, 5 * b, rng.randint(1, 5 * b)])
                c = dict(op="w", len=ln, first=first, script=[])
                first += ln      # provisional; corrected from the observation below
            # scripted answers of the underlying writer (positions that are not reached are ignored)
            if rng.random() < 0.15:
                c["script"] = [dict(k=rng.randint(1, max(1, b)), e="") for _ in range(rng.randint(1, 2))]
            if k == fault_at:
                c["script"] = [dict(k=rng.randint(0, 2 * b), e="E")]
            calls.append(c)
        groups.setdefault(b, []).append(dict(h=h0 + i, B=b, calls=calls))
    # `first` must be the number of the first not yet consumed byte: the driver is told to number
    # bytes consecutively itself (first = -1), the trace specification checks the numbering.
    scen = []
    for b in groups:
        for s in groups[b]:
            for c in s["calls"]:
                if c["op"] == "w":
                    c["first"] = -1
            scen.append(s)
    return groups, scen


def random_writer_traces(ctx, groups):
    obs = getattr(ctx, "writer_obs", None)
    if obs is None:
        return 0, 0, None
    total_ev, total_tr = 0, 0
    first_events = None
    for b in sorted(groups):
        blocks = []
        for s in groups[b]:
            o = obs[s["h"]]
            ev = [dict(ev="hist", h=s["h"])]
            for c, r in zip(s["calls"], o["rets"]):
                tail = dict(err=r["err"], buffered=r["buffered"], avail=r["avail"], wl=len(r["wire"]))
                if c["op"] == "f":
                    if len(r["u"]) > 1:
                        raise Machinery("Flush made %d calls of the underlying writer" % len(r["u"]))
                    u = r["u"][0] if r["u"] else dict(len=0, k=0, e="", data=[])
                    ev.append(dict(ev="flush", called=bool(r["u"]), len=u["len"], k=u["k"], e=u["e"], data=u["data"], **tail))
                    continue
                ev.append(dict(ev="call", len=c["len"]))
                for u in r["u"]:
                    ev.append(dict(ev="u", len=u["len"], k=u["k"], e=u["e"], data=u["data"]))
                ev.append(dict(ev="ret", op="w", nn=r["nn"], **tail))
            blocks.append(ev)
        for rnd in range(6):
            flat = [e for bl in blocks for e in bl]
            if not flat:
                break
            tf = ctx.write_ndjson("c05_bwtrace_B%d.ndjson" % b, flat)
            ok, matched, res = ctx.validate_traces("BufWriterTrace", "BufWriterTrace.cfg", tf, len(flat), len(blocks),
                                                   consts=dict(B=b, Dev=""), tag="bwt%d_%d" % (b, rnd), timeout=1800)
            if ok:
                total_ev += len(flat)
                total_tr += len(blocks)
                if first_events is None:
                    first_events = (b, flat)
                break
            if matched is None:
                raise Machinery("BufWriterTrace gave no verdict; log %s" % res["log"])
            pos = 0
            for bi, bl in enumerate(blocks):
                if matched < pos + len(bl):
                    e = bl[matched - pos]
                    # BufWriterTrace.tla is implementation-shaped (level B: every underlying write, Buffered(),
                    # Available()): a mismatch is model drift, not a verdict on C05.  The stream-level verdicts
                    # come from the replay above and from the end-to-end runs (ConnStreamTrace.tla, level A).
                    ctx.note("model-drift BufWriter.tla: B=%d history %d: event %s is not a step of the model" % (
                        b, bl[0]["h"], json.dumps(e)[:200]))
                    ctx.cov["drift"] = True
                    del blocks[bi]
                    break
                pos += len(bl)
    return total_tr, total_ev, first_events


def selftest_writer_trace(ctx, first_events):
    if not first_events:
        raise Machinery("no accepted BufWriterTrace trace to run the binding self-test on")
    b, flat = first_events
    flat = copy.deepcopy(flat[:4000])
    idx = next((i for i, e in enumerate(flat) if e["ev"] == "ret" and e["op"] == "w" and e["nn"] > 0 and i > 10), None)
    if idx is None:
        raise Machinery("self-test: no Write return in the trace")
    flat[idx]["nn"] -= 1
    f = ctx.write_ndjson("c05_selftest_bw.ndjson", flat)
    ok, matched, _ = ctx.validate_traces("BufWriterTrace", "BufWriterTrace.cfg", f, len(flat), 0,
                                         consts=dict(B=b, Dev=""), tag="bwself")
    if ok or matched != idx:
        raise Machinery("binding self-test (BufWriterTrace) failed: corrupted return count not rejected at %d (matched %s)" % (idx, matched))
    flat[idx]["nn"] += 1
    idx = next((i for i, e in enumerate(flat) if e["ev"] == "u" and len(e["data"]) >= 2 and i > 10), None)
    if idx is not None and not ctx.quick():
        d = flat[idx]["data"]
        d[0], d[1] = d[1], d[0]
        f = ctx.write_ndjson("c05_selftest_bw2.ndjson", flat)
        ok, matched, _ = ctx.validate_traces("BufWriterTrace", "BufWriterTrace.cfg", f, len(flat), 0,
                                             consts=dict(B=b, Dev=""), tag="bwself2")
        if ok or matched != idx:
            raise Machinery("binding self-test (BufWriterTrace) failed: swapped bytes on the wire not rejected at %d (matched %s)" % (idx, matched))


# ------------------------------------------------------------------ 3. end to end
def e2e_settings(ctx):
    rng = random.Random(ctx.seed * 104729 + 11)
    q = ctx.quick()
    n = ctx.pick(2500, 20000)
    base = [
        # iobuf, connbuf, flushms, pickle
        (1, 100, 1, False), (3, 1, 5, False), (7, 10, 50, False), (64, 30, 2, False), (4096, 100, 10, False),
        (2, 3, 1, False), (16, 50, 3, True), (1, 5, 20, True), (4096, 100, 10, True),
    ]
    runs = []
    nruns = ctx.pick(9, 60)
    for r in range(nruns):
        if r < len(base):
            iobuf, connbuf, flushms, pickle = base[r]
        else:
            iobuf = rng.choice([1, 2, 3, 5, 7, 13, 64, 100, 1000, 4096, 65536])
            connbuf = rng.choice([1, 2, 3, 10, 30, 100])
            flushms = rng.choice([1, 2, 5, 10, 50])
            pickle = rng.random() < 0.3
        lo = 24 if pickle else 5
        cand = [lo, lo + 1, lo + 2, 13, 30, 70, iobuf - 1, iobuf, iobuf + 1, 2 * iobuf, 2 * iobuf + 1, 3 * iobuf + 2, 5 * iobuf]
        lens = sorted({x for x in cand if lo <= x <= 20000})
        if iobuf >= 1000:       # mostly ordinary metric lines, a few that exceed the buffer
            lens = [30, 45, 70, 90, 70, 30, 45] + lens
        if pickle:              # "whatever the line lengths": pickles of a few hundred bytes up to some kB in every pickle run,
            lens = lens + [200, 230, 250, 256, 300, 700, 2000]      # whatever the I/O buffer (frame = prefix + ~30 B + name)
        runs.append(dict(r=r, iobuf=iobuf, connbuf=connbuf, flushms=flushms, pickle=pickle, n=n, lens=lens,
                         burst=rng.choice([2, 8, 40, max(2, 2 * connbuf)]), pauseus=rng.choice([50, 300, 2000]),
                         manflush=rng.choice([0, 0, 7, 50])))
    return runs


def project_run(rec):
    """bytes -> line identities (projection; the judgement is ConnStreamTrace.tla's)"""
    cfg = rec["cfg"]
    raw = open(rec["lines_file"], "rb").read()
    lines = raw.split(b"\n")[:-1]
    if len(lines) != rec["handed"]:
        raise Machinery("run %d: %d lines in the hand-off file, %d handed" % (cfg["r"], len(lines), rec["handed"]))
    ev = [dict(ev="run", r=cfg["r"], handed=rec["handed"], mode="pickle" if cfg["pickle"] else "plain", gens=rec.get("gens", 1))]
    ids, bad, tail = [], {}, 0
    if cfg["pickle"]:
        index = {}
        for i, ln in enumerate(lines):
            name, val, ts = ln.decode("latin-1").split(" ")
            index[(name, int(ts), float(val))] = i + 1
        for wf in rec["wire_files"]:
            for fr in c05_unpickle.frames(open(wf, "rb").read()):
                if "tail" in fr:
                    tail += fr["tail"]
                elif "bad" in fr or len(fr["items"]) != 1:
                    bad[len(ids)] = dict(kind="undecodable-frame", off=fr["off"], why=str(fr.get("bad", "items != 1"))[:200])
                    ids.append(0)
                else:
                    name, ts, val = fr["items"][0]
                    k = index.get((name, ts, float(val)), 0)
                    if k == 0:
                        bad[len(ids)] = dict(kind="unknown-datapoint", off=fr["off"], why=json.dumps(fr["items"][0])[:200])
                    ids.append(k)
    else:
        index = {ln: i + 1 for i, ln in enumerate(lines)}
        for wf in rec["wire_files"]:
            pieces = open(wf, "rb").read().split(b"\n")
            tail += len(pieces[-1])
            off = 0
            for pc in pieces[:-1]:
                k = index.get(pc, 0)
                if k == 0:
                    bad[len(ids)] = dict(kind="empty-line" if not pc else "unknown-line", off=off, why=repr(pc[:80]))
                ids.append(k)
                off += len(pc) + 1
    i = 0
    while i < len(ids):
        if ids[i] == 0:
            ev.append(dict(ev="bad", **bad[i]))
            i += 1
            continue
        j = i
        while j + 1 < len(ids) and ids[j + 1] == ids[j] + 1:
            j += 1
        ev.append(dict(ev="recv", a=ids[i], b=ids[j]))
        i = j + 1
    ev.append(dict(ev="end", tail=tail, slow=rec["slow"], conns=rec["conns"], stalled=bool(rec["stalled"]),
                   out=rec["out"]))
    return ev, sum(1 for x in ids if x > 0)


def explain(block, idx, rec):
    e = block[idx]
    mode = block[0]["mode"]
    cfg = rec["cfg"]
    where = "iobuf=%d connbuf=%d flush=%dms %s" % (cfg["iobuf"], cfg["connbuf"], cfg["flushms"], mode)
    if block[0]["gens"] == 2:
        sig, what = explain1(block, idx, rec, mode, cfg, where + (
            ", second connection (the endpoint closed the first one while its writer held a line at %s; %d lines handed to the "
            "new connection, old writer released after %d of them)" % (cfg["hold"], len(cfg["newlens"]), cfg["relat"] or len(cfg["newlens"]))))
        return "regen " + sig, what
    return explain1(block, idx, rec, mode, cfg, where)


def explain1(block, idx, rec, mode, cfg, where):
    e = block[idx]
    if e["ev"] == "bad":
        return ("stream-unit %s %s" % (mode, e["kind"]),
                "%s: the endpoint received a unit that is no handed-off line (%s at byte %d: %s)" % (where, e["kind"], e["off"], e["why"]))
    if e["ev"] == "recv":
        return ("stream-order %s" % mode,
                "%s: line %d received after line %s (duplicated or out of hand-off order)" % (
                    where, e["a"], max([x["b"] for x in block[:idx] if x["ev"] == "recv"] or [0])))
    if e["ev"] == "end":
        nrecv = sum(x["b"] - x["a"] + 1 for x in block if x["ev"] == "recv")
        if e["stalled"]:
            return ("stream-accounting %s stalled" % mode,
                    "%s: %d handed, %d received, slow_conn=%d: lines neither received nor counted" % (where, block[0]["handed"], nrecv, e["slow"]))
        if e["tail"]:
            return ("stream-unit %s unterminated-tail" % mode, "%s: %d bytes after the last complete line/frame" % (where, e["tail"]))
        if e["conns"] != block[0]["gens"]:
            return ("stream-accounting %s connection-dropped" % mode, "%s: the relay opened %d connections to a healthy endpoint" % (where, e["conns"]))
        return ("stream-accounting %s missing-not-counted" % mode,
                "%s: %d handed, %d received, slow_conn=%d" % (where, block[0]["handed"], nrecv, e["slow"]))
    return ("stream-event " + e["ev"], json.dumps(e))


def end_to_end(ctx):
    runs = e2e_settings(ctx)
    f = ctx.write_ndjson("c05_runs.ndjson", runs)
    res = ctx.go_test("c05", run="^TestC05E2E$", timeout=ctx.pick(900, 3000), expect_ok=False,
                      env=dict(VERIF_C05_RUNS=f, VERIF_C05_DEADLINE_S=ctx.pick(30, 60), VERIF_C05_PAR=ctx.pick(3, 4)))
    recs = ctx.read_ndjson("c05_e2e.ndjson") if os.path.exists(os.path.join(ctx.out, "c05_e2e.ndjson")) else []
    if res["rc"] != 0:
        if "panic:" in res["text"] or "fatal error:" in res["text"]:
            ctx.violation("e2e panic", "the relay panicked while forwarding to a healthy endpoint", dict(tail=res["text"][-3000:]))
            return [], {}, 0
        raise Machinery("e2e driver failed (rc=%s); log %s\n%s" % (res["rc"], res["log"], res["text"][-2000:]))
    byr = {}
    for r in recs:
        if r["ev"] != "run" or not r["online"]:
            raise Machinery("run %s: the destination never came online / driver problem: %s" % (r["cfg"]["r"], json.dumps(r)[:400]))
        byr[r["cfg"]["r"]] = r
    if len(byr) != len(runs):
        raise Machinery("e2e driver recorded %d of %d runs" % (len(byr), len(runs)))
    blocks, nrecv = [], 0
    for r in sorted(byr):
        ev, k = project_run(byr[r])
        blocks.append(ev)
        nrecv += k
    return blocks, byr, nrecv


# ------------------------------------------------------------------ 4. two connection generations
def regen_settings(ctx):
    rng = random.Random(ctx.seed * 15485863 + 17)
    base = [
        dict(iobuf=4096, connbuf=100, pickle=False, oldpre=0, oldlen=39, oldq=0, hold="hd.added", newlens=[28, 28, 30], relat=0, midflush=0),
        dict(iobuf=256, connbuf=10, pickle=False, oldpre=1, oldlen=30, oldq=2, hold="hd.recv", newlens=[24, 40, 31, 13, 70], relat=3, midflush=0),
        dict(iobuf=64, connbuf=10, pickle=False, oldpre=0, oldlen=13, oldq=0, hold="hd.added", newlens=[13, 5, 30, 9], relat=0, midflush=1),
        dict(iobuf=4096, connbuf=100, pickle=True, oldpre=0, oldlen=40, oldq=1, hold="hd.added", newlens=[30, 45, 70], relat=0, midflush=0),
        dict(iobuf=7, connbuf=3, pickle=False, oldpre=0, oldlen=5, oldq=0, hold="hd.added", newlens=[5], relat=0, midflush=0),
        dict(iobuf=1, connbuf=1, pickle=False, oldpre=0, oldlen=5, oldq=0, hold="hd.recv", newlens=[5, 7], relat=1, midflush=0),
        dict(iobuf=1000, connbuf=30, pickle=False, oldpre=2, oldlen=70, oldq=3, hold="hd.added", newlens=[30, 45, 70, 90, 30, 45], relat=4, midflush=2),
    ]
    runs = []
    for i in range(ctx.pick(12, 60)):
        if i < len(base):
            c = dict(base[i])
        else:
            pickle = rng.random() < 0.25
            lo = 24 if pickle else 5
            iobuf = rng.choice([16, 64, 100, 300, 1000, 4096, 65536])
            k = rng.randint(1, 6)
            c = dict(iobuf=iobuf, connbuf=rng.choice([1, 3, 10, 100]), pickle=pickle, oldpre=rng.choice([0, 0, 1, 2]),
                     oldlen=rng.choice([x for x in (5, 13, 30, 45, 70, iobuf - 1, iobuf // 2) if lo <= x <= 300]),
                     oldq=rng.choice([0, 0, 1, 3]), hold=rng.choice(["hd.added", "hd.added", "hd.recv"]),
                     newlens=[rng.choice([x for x in (5, 9, 13, 24, 30, 45, 70, 90) if x >= lo]) for _ in range(k)],
                     relat=rng.choice([0, 0, rng.randint(1, k)]), midflush=rng.choice([0, 0, 0, rng.randint(1, k)]))
        c.update(r=1000 + i, flushms=3600 * 1000)
        runs.append(c)
    return runs


def regen(ctx):
    runs = regen_settings(ctx)
    f = ctx.write_ndjson("c05_regen_cfg.ndjson", runs)
    res = ctx.go_test("c05", run="^TestC05Regen$", timeout=ctx.pick(900, 3000), expect_ok=False,
                      env=dict(VERIF_C05_REGEN=f, VERIF_C05_DEADLINE_S=ctx.pick(30, 60)))
    recs = ctx.read_ndjson("c05_regen.ndjson") if os.path.exists(os.path.join(ctx.out, "c05_regen.ndjson")) else []
    if res["rc"] != 0:
        if "panic:" in res["text"] or "fatal error:" in res["text"]:
            ctx.violation("regen panic", "the relay panicked while an old connection's writer finished late", dict(tail=res["text"][-3000:]))
            return [], {}, 0
        raise Machinery("regen driver failed (rc=%s); log %s\n%s" % (res["rc"], res["log"], res["text"][-2000:]))
    byr = {}
    for r in recs:
        if r["ev"] != "regen":
            raise Machinery("regen run %s: a scheduling gate was not reached (%s): %s" % (r["cfg"]["r"], r.get("why"), json.dumps(r)[:400]))
        byr[r["cfg"]["r"]] = r
    if len(byr) != len(runs):
        raise Machinery("regen driver recorded %d of %d runs" % (len(byr), len(runs)))
    blocks, nrecv = [], 0
    for r in sorted(byr):
        ev, k = project_run(byr[r])
        blocks.append(ev)
        nrecv += k
    late = sum(r["old_late_writes_noerr"] for r in byr.values())
    if late == 0:
        raise Machinery("vacuous regen stage: no old connection's writer completed a late write")
    return blocks, byr, nrecv


def selftest_regen(ctx, blocks):
    """a third connection in a two-generation run must be rejected at the end event"""
    flat = copy.deepcopy([e for b in blocks for e in b if b[0]["gens"] == 2])
    idx = next((i for i, e in enumerate(flat) if e["ev"] == "end"), None)
    if idx is None:
        raise Machinery("self-test: no two-generation run")
    flat[idx]["conns"] = 3
    f = ctx.write_ndjson("c05_selftest_regen.ndjson", flat)
    ok, matched, _ = ctx.validate_traces("ConnStreamTrace", "ConnStreamTrace.cfg", f, len(flat), 0, tag="cstselfregen")
    if ok or matched != idx:
        raise Machinery("binding self-test (ConnStreamTrace, regen) failed: not rejected at event %d (matched %s)" % (idx, matched))


def validate_e2e(ctx, blocks, byr, max_rounds=8):
    blocks = list(blocks)
    ntr = len(blocks)
    for rnd in range(max_rounds):
        flat = [e for b in blocks for e in b]
        if not flat:
            break
        f = ctx.write_ndjson("c05_stream_trace.ndjson", flat)
        ok, matched, res = ctx.validate_traces("ConnStreamTrace", "ConnStreamTrace.cfg", f, len(flat), len(blocks),
                                               tag="cst%d" % rnd, timeout=1800)
        if ok:
            return
        if matched is None:
            raise Machinery("ConnStreamTrace gave no verdict; log %s" % res["log"])
        pos = 0
        for bi, b in enumerate(blocks):
            if matched < pos + len(b):
                rec = byr[b[0]["r"]]
                sig, what = explain(b, matched - pos, rec)
                ctx.violation(sig, what, dict(run=rec, events=b[max(0, matched - pos - 10):matched - pos + 1]))
                del blocks[bi]
                break
            pos += len(b)
        else:
            raise Machinery("matched prefix beyond the trace")
    else:
        ctx.note("more than %d rejected runs; stopped re-validating" % max_rounds)


def selftest_stream(ctx, blocks):
    """one corrupted field of an accepted real trace must be rejected exactly there"""
    flat = copy.deepcopy([e for b in blocks for e in b])
    tests = []
    idx = next((i for i, e in enumerate(flat) if e["ev"] == "recv" and e["b"] > e["a"] + 1), None)
    if idx is not None:
        tests.append(("a line received twice", idx, lambda e: e.update(a=e["a"] - 1) if e["a"] > 1 else e.update(b=e["b"] + 100000)))
    idx2 = next((i for i, e in enumerate(flat) if e["ev"] == "end"), None)
    if not ctx.quick() or not tests:
        tests.append(("a dropped line not counted", idx2, lambda e: e.update(slow=e["slow"] + 1)))
    for name, idx, mut in tests:
        fl = copy.deepcopy(flat)
        # make "received twice" really a duplicate: the run starts one line earlier than the previous one ended
        if name == "a line received twice":
            prev = next((fl[k] for k in range(idx - 1, -1, -1) if fl[k]["ev"] in ("recv", "run")), None)
            if prev is not None and prev["ev"] == "recv":
                fl[idx]["a"] = prev["b"]
            else:
                fl[idx]["a"] = 0
        else:
            mut(fl[idx])
        f = ctx.write_ndjson("c05_selftest_stream.ndjson", fl)
        ok, matched, _ = ctx.validate_traces("ConnStreamTrace", "ConnStreamTrace.cfg", f, len(fl), 0, tag="cstself%d" % idx)
        if ok or matched != idx:
            raise Machinery("binding self-test (ConnStreamTrace, %s) failed: not rejected at event %d (matched %s)" % (name, idx, matched))


# ------------------------------------------------------------------ run
def run(ctx):
    ctx.specdir()          # create the scratch copy before threads use it
    if os.environ.get("VERIF_C05_SKIP_MC") == "1" and ctx.out.find("scratch-") >= 0:
        ctx.note("model-checking stage skipped (VERIF_C05_SKIP_MC, scratch repository only)")
    else:
        model_check(ctx)

    behs = generate_behaviours(ctx)
    groups, extra = random_behaviours(ctx, len(behs))
    nb, ncalls = replay_writer(ctx, behs, extra)
    ctx.log("replayed %d TLC behaviours (%d API calls) on destination.Writer" % (nb, ncalls))
    ntr, nev, first_events = random_writer_traces(ctx, groups)
    ctx.log("BufWriterTrace accepted %d random call sequences (%d events)" % (ntr, nev))

    blocks, byr, nrecv = end_to_end(ctx)
    gblocks, gbyr, gnrecv = regen(ctx)
    if blocks or gblocks:
        validate_e2e(ctx, blocks + gblocks, {**byr, **gbyr})
    handed = sum(r["handed"] for r in byr.values())
    slow = sum(r["slow"] for r in byr.values())
    ctx.log("end to end: %d runs, %d lines handed, %d received intact, %d counted slow_conn" % (len(byr), handed, nrecv, slow))
    ctx.log("two generations: %d runs, %d lines handed to the second connection, %d received intact, %d late writes of the old writer" % (
        len(gbyr), sum(r["handed"] for r in gbyr.values()), gnrecv, sum(r["old_late_writes"] for r in gbyr.values())))
    if not ctx.violations:
        if nrecv == 0 or handed == 0:
            raise Machinery("vacuous end-to-end stage: nothing received")
        selftest_stream(ctx, blocks)
        if gnrecv == 0:
            raise Machinery("vacuous regen stage: nothing received over the second connection")
        selftest_regen(ctx, gblocks)
        selftest_writer_trace(ctx, first_events)
        ctx.cov["binding_selftests"] = "passed"
        outdiff = [r["cfg"]["r"] for r in byr.values() if r["out"] != r["handed"] - r["slow"]]
        if outdiff:
            ctx.note("direction=out counter differs from handed - slow_conn in runs %s (not part of the statement)" % outdiff[:10])

    cov = ctx.cov
    faulty = sum(1 for b in behs if any(s["e"] or False for c in b["calls"] for s in c["script"]))
    cov["evaluations"] = ncalls + handed
    cov["distinct_nontrivial"] = len({json.dumps(b["calls"]) for b in behs if any(c["script"] for c in b["calls"])}) + len(
        {(r["cfg"]["iobuf"], r["cfg"]["connbuf"], r["cfg"]["flushms"], r["cfg"]["pickle"]) for r in byr.values() if r["handed"] > r["slow"]})
    cov["replayed_behaviours"] = nb
    cov["replayed_behaviours_with_injected_error"] = faulty
    cov["writer_trace_histories"] = ntr
    cov["writer_trace_events"] = nev
    cov["e2e_runs"] = len(byr)
    cov["e2e_lines_handed"] = handed
    cov["e2e_lines_received_intact"] = nrecv
    cov["e2e_lines_counted_slow_conn"] = slow
    cov["regen_runs"] = len(gbyr)
    cov["regen_lines_handed_to_second_conn"] = sum(r["handed"] for r in gbyr.values())
    cov["regen_lines_received_intact"] = gnrecv
    cov["regen_old_writer_late_writes"] = sum(r["old_late_writes"] for r in gbyr.values())
    cov["e2e_settings"] = [[r["cfg"]["iobuf"], r["cfg"]["connbuf"], r["cfg"]["flushms"], "pickle" if r["cfg"]["pickle"] else "plain"]
                           for r in list(byr.values())[:12]]
    cov["rule"] = ("distinct = distinct TLC-generated call sequences (Write lengths 1..3B / Flush, with the underlying writer's "
                   "answers incl. errors and short writes) that reach the underlying writer at least once, replayed on "
                   "destination.Writer with every (nn, err, Buffered, Available, wire) compared to the TLC-computed value; plus "
                   "distinct (iobuf, connbuf, flush, mode) settings of real destinations whose loopback byte stream "
                   "(lines of 5 B .. 5 x iobuf; pickle runs also lines of 200 .. 2000 B whatever the iobuf) was accepted by ConnStreamTrace.tla")
    if behs:
        b = next((b for b in behs if any(s["e"] for c in b["calls"] for s in c["script"])), behs[0])
        ctx.sample(dict(replayed_behaviour=dict(B=b["B"], calls=[dict(op=c["op"], len=c["len"], script=c["script"], nn=c["nn"],
                                                                      err=c["err"], buffered=c["buffered"]) for c in b["calls"][:6]])))
    for bl in blocks[:2]:
        ctx.sample(dict(e2e_run=byr[bl[0]["r"]]["cfg"] and {k: byr[bl[0]["r"]]["cfg"][k] for k in ("iobuf", "connbuf", "flushms", "pickle", "n")},
                        events=bl[:4] + bl[4:][-1:]))
    ctx.assumptions += [
        "the endpoint is a loopback TCP listener that reads as fast as it can (healthy connection); hand-offs come from one goroutine through route.Dispatch",
        "quiescence = received + slow_conn delta reaches handed; the wait is given up only when none of (received, slow_conn, direction=out) has changed for 30-60 s (normal: milliseconds), which is the violation 'lines neither received nor counted'",
        "byte values in the Writer replay are the byte's sequence number mod 251",
        "two-generation runs: the schedule (old writer held between taking a line and writing it, endpoint cut, reconnect, lines over the new connection, late release) is forced with the destination package's verification hooks used as gates only; ConnStreamGen.tla models one Writer.Write/Flush call as one step",
        "line identity = the exact line text (five base-62 digits of the hand-off number + position-dependent filler); pickle identity = (name, timestamp, value) decoded by CPython",
    ]
    cov["trusted_base"] = ["TLC", "harness/c05 driver (records only)", "checks/c05.py project_run (bytes -> line identities)",
                           "tools/c05_unpickle.py (CPython pickle.loads)", "kernel loopback TCP"]
