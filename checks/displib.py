"""Shared by C01 and C02: TLC model checking of Table.tla (Dispatch loop == declarative statement),
TLC generation of tables (DispatchGen) and line classes (ValidateGen), the Go driver on the real
table.Table (harness/disp), and trace validation by DispatchTrace.tla (TLC decides every Dispatch)."""
import copy, json, os, random
from vlib.core import Machinery

ALLKINDS = {"capture", "all", "first", "hash"}


ORDERS = ("", "false", "true")      # validate_order as written in the configuration text ("" = absent)


def consts(names=2, black=0, rw=0, agg=0, routes=1, dests=1, kinds=ALLKINDS, dev="", orders=("",)):
    # the answers of the order register are explored wherever a table may have an order setting written
    newer = {True} if set(orders) == {""} else {True, False}
    return dict(Names={"n%d" % i for i in range(1, names + 1)}, MaxBlack=black, MaxRw=rw, MaxAgg=agg,
                MaxRoutes=routes, MaxDests=dests, Kinds=set(kinds), Dev=dev, Orders=set(orders), NewerVals=newer)


def mc_grid(ctx, grid, workers=4, timeout=2400):
    for c in grid:
        ctx.tlc("Table", "Table_mc.cfg", consts=c, workers=workers, timeout=timeout, heap="6g")


# deviation -> the smallest bound that exhibits it
DEVS = {
    "break_after_first_route": consts(routes=2, kinds={"capture"}),
    "skip_last_route": consts(routes=1, kinds={"capture"}),
    "blacklist_after_rewrite": consts(black=1, rw=1, routes=1, kinds={"capture"}),
    "first_no_break": consts(routes=1, dests=2, kinds={"first"}),
    "all_breaks": consts(routes=1, dests=2, kinds={"all"}),
    "no_return_invalid": consts(routes=1, kinds={"capture"}),
    "invalid_not_counted": consts(routes=0),
    "unroutable_ignores_routed": consts(routes=1, kinds={"capture"}),
    "unroutable_twice": consts(routes=1, kinds={"capture"}),
    "no_return_blacklist": consts(black=1, routes=1, kinds={"capture"}),
    "dropraw_ignored": consts(agg=1, routes=1, kinds={"capture"}),
    "route_filter_on_original_name": consts(rw=1, routes=1, kinds={"capture"}),
    "dest_filter_ignored": consts(routes=1, dests=1, kinds={"all"}),
    # the order check of the gate (validate_order as configured)
    "invalid_counted_as_ooo": consts(routes=1, kinds={"capture"}, orders=ORDERS),
    "ooo_counted_invalid": consts(routes=1, kinds={"capture"}, orders=ORDERS),
    "order_check_when_off": consts(routes=1, kinds={"capture"}, orders={"", "false"}),
    "no_return_ooo": consts(routes=1, kinds={"capture"}, orders={"true"}),
    "order_before_validate": consts(routes=0, orders={"true"}),
}
MC_INVARIANTS = ("DispatchLoopIsDecl", "ExactlyOneFate", "OrderSeesValidOnly", "InvalidNeverOoo", "OooOnlyWhenOn")


def mc_nonvacuity(ctx, devs):
    """the agreement invariant is not vacuous: each named deviation of the loop is rejected by TLC"""
    for d in devs:
        c = dict(DEVS[d], Dev=d)
        r = ctx.tlc("Table", "Table_mc.cfg", consts=c, workers=2, timeout=600, expect_ok=False, count=False, heap="2g")
        if r["violated"] not in MC_INVARIANTS:
            raise Machinery("deviation %s is not rejected by the model invariants (vacuity); log %s" % (d, r["log"]))
    ctx.cov["deviations_rejected_by_tlc"] = sorted(devs)


def gen_tables(ctx, num, names, bounds, sizes, seed, tag):
    """tables from TLC simulation of the admin actions; each with TLC's expectation per name"""
    c = consts(names=names, **bounds)
    c["EmitSizes"] = set(sizes)
    r = ctx.tlc("DispatchGen", "DispatchGen.cfg", consts=c, workers=1, timeout=1800, heap="4g", tag=tag,
                simulate="num=%d" % num, args=["-depth", str(max(sizes) + 1), "-seed", str(seed)])
    out, seen = [], set()
    for x in ctx.tlc_printed(r, "@@T"):
        if x in seen:
            continue
        seen.add(x)
        d = json.loads(x)
        d["names"] = sorted(c["Names"])
        out.append(d)
    if not out:
        raise Machinery("table generator printed nothing; log %s" % r["log"])
    return out


def gen_lines(ctx, maxnodes):
    """the line classes of Validate.tla with the allowed verdicts per level pair (and TLC's sanity check
    of the decision table: invariant Sane)"""
    r = ctx.tlc("ValidateGen", "ValidateGen.cfg", consts=dict(MaxNodes=maxnodes), workers=1, timeout=1800, heap="4g")
    ls = [json.loads(x) for x in ctx.tlc_printed(r, "@@L")]
    if len(ls) < 100:
        raise Machinery("line generator printed only %d classes; log %s" % (len(ls), r["log"]))
    return ls


PLAIN = dict(lead=False, nodes=["w", "w"], app="none")


def c01_lines(rng, names):
    """every name of the universe as a valid line and as an invalid one (class chosen by the seed)"""
    out = []
    for n in names:
        out.append(dict(nm=n, v="ok", line=dict(nf=3, key=PLAIN, val=rng.choice(["int", "float"]), ts="int")))
        bad = rng.choice([dict(nf=2, val="int", ts="int"), dict(nf=4, val="int", ts="int"), dict(nf=1, val="int", ts="int"),
                          dict(nf=3, val="bad", ts="int"), dict(nf=3, val="int", ts="bad")])
        out.append(dict(nm=n, v="bad", line=dict(nf=bad["nf"], key=PLAIN, val=bad["val"], ts=bad["ts"])))
    rng.shuffle(out)
    return out


def run_driver(ctx, cases, name, timeout=3000):
    """-> (events, crashed)"""
    cf = ctx.write_ndjson(name + "_cases.ndjson",
                          [dict(id=c["id"], names=c["names"], t=c["t"], lvl=c["lvl"], lvm=c["lvm"], ord=c.get("ord", ""), via=c.get("via", ""), long=c.get("long", 0),
                                lines=[dict(nm=l["nm"], line=l["line"], rel=l.get("rel", ""), ref=l.get("ref", -1))
                                       for l in c["lines"]]) for c in cases])
    tf = os.path.join(ctx.out, name + "_trace.ndjson")
    res = ctx.go_test("disp", run="^TestDispatch$", timeout=timeout, expect_ok=False,
                      env=dict(VERIF_DISP_CASES=cf, VERIF_DISP_TRACE=tf))
    events = []
    if os.path.exists(tf):
        raw = [x for x in open(tf, errors="replace").read().split("\n") if x.strip()]
        for k, x in enumerate(raw):
            try:
                events.append(json.loads(x))
            except ValueError:
                if k != len(raw) - 1 or res["rc"] == 0:      # only a killed driver may leave a cut last line
                    raise Machinery("unreadable line %d in the driver trace %s" % (k + 1, tf))
    crashed = None
    if res["rc"] != 0:
        prog = []
        try:
            prog = ctx.read_ndjson("disp_progress.ndjson")
        except Exception:
            pass
        if "driver bug:" in res["text"]:
            raise Machinery("disp driver gave up on a malformed case (%s); log %s" % (
                [x for x in res["text"].splitlines() if "driver bug:" in x][0][:200], res["log"]))
        crashed = dict(log=res["log"], last=prog[-3:], tail=res["text"][-2500:])
        if "panic:" not in res["text"] and "fatal error:" not in res["text"] and "test timed out" not in res["text"]:
            raise Machinery("disp driver failed without a panic (rc=%s); log %s\n%s" % (res["rc"], res["log"], res["text"][-2000:]))
    for e in events:
        if e["ev"] == "probe" and not e["refused"]:
            raise Machinery("something listens on 127.0.0.1:%d: the refusing-endpoint observation is not usable" % e["port"])
        if e["ev"] == "d" and e["stray"] != 0:
            raise Machinery("unexpected counter movement (slow_conn/slow_spool/aggregator > 1) in table %s line %s: "
                            "the observation scheme does not hold" % (e["id"], e["li"]))
    if not crashed and not any(e["ev"] == "end" for e in events):
        raise Machinery("disp driver wrote no end event")
    return events, crashed


def project(events):
    """the alphabet of DispatchTrace.tla"""
    out = []
    for e in events:
        if e["ev"] == "tbl":
            t = e["t"]
            t = dict(black=t.get("black") or [], rw=t.get("rw") or [],
                     aggs=[dict(acc=a.get("acc") or [], drop=a["drop"]) for a in (t.get("aggs") or [])],
                     routes=[dict(kind=r["kind"], acc=r.get("acc") or [], dests=[d or [] for d in (r.get("dests") or [])])
                             for r in (t.get("routes") or [])])
            out.append(dict(ev="tbl", id=e["id"], t=t, lvl=e["lvl"], lvm=e["lvm"], ord=e["ord"]))
        elif e["ev"] == "d":
            out.append(dict(ev="d", id=e["id"], li=e["li"], nm=e["nm"], line=e["line"], text=e["text"], key=e["key"],
                            keynd=e["keynd"], tsn=e["tsn"], o=e["o"], bad=e["bad"]))
    return out


def blocks_of(recs):
    blocks, cur = [], None
    for r in recs:
        if r["ev"] == "tbl":
            cur = [r]
            blocks.append(cur)
        elif cur is not None:
            cur.append(r)
    return blocks


def validate(ctx, events, tag, on_reject, chunk=12000, max_rej=10):
    """TLC decides every Dispatch event.  A rejected event is reported through on_reject(block, index),
    its table is dropped and the rest validated again.  -> (dispatches accepted, rejected tables)"""
    blocks = blocks_of(project(events))
    chunks, cur, n = [], [], 0
    for b in blocks:
        if n + len(b) > chunk and cur:
            chunks.append(cur)
            cur, n = [], 0
        cur.append(b)
        n += len(b)
    if cur:
        chunks.append(cur)
    accepted = rejected = 0
    for ci, bl in enumerate(chunks):
        bl = list(bl)
        for rnd in range(max_rej + 1):
            flat = [r for b in bl for r in b]
            if not flat:
                break
            f = ctx.write_ndjson("%s_trace_%d.ndjson" % (tag, ci), flat)
            ok, matched, res = ctx.validate_traces("DispatchTrace", "DispatchTrace.cfg", f, len(flat), len(bl),
                                                   tag="%s_%d_%d" % (tag, ci, rnd), timeout=3000, heap="6g")
            if ok:
                accepted += sum(1 for r in flat if r["ev"] == "d")
                break
            if matched is None:
                raise Machinery("trace validation gave no verdict; log %s" % res["log"])
            pos = 0
            for bi, b in enumerate(bl):
                if matched < pos + len(b):
                    if b[matched - pos]["ev"] != "d":
                        raise Machinery("trace spec rejected a tbl event (driver/spec mismatch): %s; log %s" % (
                            json.dumps(b[matched - pos])[:300], res["log"]))
                    on_reject(b, matched - pos)
                    rejected += 1
                    del bl[bi]
                    break
                pos += len(b)
            else:
                raise Machinery("matched prefix beyond the trace")
            if rejected >= max_rej:
                ctx.note("%d rejected tables; stopped re-validating" % rejected)
                return accepted, rejected
    return accepted, rejected


def selftest_binding(ctx, events, tag):
    """one corrupted observation in an otherwise accepted trace must be rejected exactly there"""
    flat = [r for b in blocks_of(project(events))[:40] for r in b]

    def run(mut, name, pred):
        f2 = copy.deepcopy(flat)
        idx = next((i for i, r in enumerate(f2) if r["ev"] == "d" and pred(r)), None)
        if idx is None:
            return False
        mut(f2[idx])
        f = ctx.write_ndjson("%s_self_%s.ndjson" % (tag, name), f2)
        ok, matched, _ = ctx.validate_traces("DispatchTrace", "DispatchTrace.cfg", f, len(f2), 0, tag="%s_self_%s" % (tag, name))
        if ok or matched != idx:
            raise Machinery("binding self-test %s failed: corrupted event %d not rejected there (matched %s)" % (name, idx, matched))
        return True

    def bump_route(r):
        for v in r["o"]["rt"]:
            if v:
                v[-1] += 1
                return
    done = []
    if run(bump_route, "rt", lambda r: any(len(v) > 0 for v in r["o"]["rt"])):
        done.append("hand-over count")
    if run(lambda r: r["o"].__setitem__("unroutable", r["o"]["unroutable"] + 1), "unr", lambda r: True):
        done.append("unroutable counter")
    if run(lambda r: r["bad"][0].__setitem__("metric", r["bad"][0]["metric"] + "00"), "bad",
           lambda r: r["bad"] and r["line"]["nf"] == 3):
        done.append("bad-record key")
    if run(lambda r: r["o"].__setitem__("invalid", 0), "inv", lambda r: r["o"]["invalid"] == 1):
        done.append("invalid counter")
    if run(lambda r: r["o"].__setitem__("ooo", 1), "ooo", lambda r: r["o"]["ooo"] == 0 and r["o"]["invalid"] == 0):
        done.append("out_of_order counter")
    if run(lambda r: r["o"].update(invalid=0, ooo=1), "invooo", lambda r: r["o"]["invalid"] == 1):
        done.append("invalid line counted out_of_order")
    if len(done) < 2:
        raise Machinery("binding self-test found nothing to corrupt")
    ctx.cov["binding_selftests"] = "passed: " + ", ".join(done)


def describe_c01(case, ev):
    """which clause of the expectation (computed by TLC, DispatchGen) the observation misses --
    wording only, the verdict is TLC's"""
    ln = case["lines"][ev["li"]]
    exp = case["exp"][ln["nm"]][ln["v"]]
    o = ev["o"]
    kinds = [r["kind"] for r in case["t"]["routes"]]
    for cn in ("in", "invalid", "ooo", "black", "unroutable"):
        if o[cn] != exp[cn]:
            return ("counter-%s fate=%s" % (cn, exp["fate"]),
                    "counter %s moved by %d, expected %d (line %s, expected fate %s)" % (cn, o[cn], exp[cn], ln["nm"], exp["fate"]))
    for k, v in enumerate(o["rt"]):
        if k >= len(exp["rt"]) or v not in exp["rt"][k]:
            return ("handover kind=%s fate=%s" % (kinds[k] if k < len(kinds) else "?", exp["fate"]),
                    "route #%d (%s) handed the line to its destinations %s times, allowed %s" % (
                        k + 1, kinds[k] if k < len(kinds) else "?", v, exp["rt"][k] if k < len(exp["rt"]) else None))
    if not (set(exp["aggMust"]) <= set(o["agg"]) <= set(exp["aggMust"]) | set(exp["aggMay"])):
        return ("aggregator-intake fate=%s" % exp["fate"],
                "aggregators that took the line: %s, must %s may %s" % (o["agg"], exp["aggMust"], exp["aggMay"]))
    return ("bad-record fate=%s" % exp["fate"], "bad-metrics records %s do not fit the line (nf=%d)" % (ev["bad"], ln["line"]["nf"]))
