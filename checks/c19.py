"""C19 — order validation accepts a point only if it is newer than all accepted before."""
import copy, json, os, random
from vlib.core import Machinery

LEVEL = "model_checking"

BASE = dict(Keys={1}, MaxTs=2, NCallers=3, MaxCalls=3, CmpStrict=True, WriteInLock=True, StoreFirst=False,
            CountReject=True, ReturnOnReject=True, SharedRegister=False, KeyAfterRewrite=False, Fold=False, Blacklisted=set())


def model_check(ctx):
    if os.environ.get("VERIF_SKIP_MC"):      # only for trying changes of the Go code out (scratch worktree): the model is unaffected
        ctx.note("model checking skipped (VERIF_SKIP_MC)")
        return
    # the last one: a rewriter folds both keys into one emitted name, key 2 is blacklisted
    grid = [dict(BASE), dict(BASE, Keys={1, 2}, NCallers=2), dict(BASE, Keys={1, 2}, NCallers=2, Fold=True, Blacklisted={2})]
    if not ctx.quick():
        grid += [dict(BASE, MaxTs=3, MaxCalls=4), dict(BASE, Keys={1, 2}, NCallers=3, MaxCalls=4),
                 dict(BASE, Keys={1, 2, 3}, NCallers=2, Fold=True, Blacklisted={3})]
    for c in grid:
        ctx.tlc("Ordered", "Ordered_mc.cfg", consts=c, workers=ctx.pick(4, 6), timeout=3000)
    dev = [("CmpStrict", False, {"Mono", "OnlyNewer", "Independent"}, {}),
           ("WriteInLock", False, {"Mono", "OnlyNewer", "Independent"}, {}),
           ("StoreFirst", True, {"Mono", "OnlyNewer", "Independent"}, {}), ("CountReject", False, {"Accounting"}, {}),
           ("ReturnOnReject", False, {"Accounting", "FwdOK"}, {}),
           # shared_register_on_collision: two keys, one register (needs two keys to show)
           ("SharedRegister", True, {"NoFalseReject", "Independent"}, dict(Keys={1, 2}, NCallers=2)),
           # key_after_rewrite: the register is chosen by the emitted name; shows when a rewriter folds two keys into one
           ("KeyAfterRewrite", True, {"NoFalseReject", "Independent"}, dict(Keys={1, 2}, NCallers=2, Fold=True))]
    rej = []
    for name, val, expect, more in dev:
        r = ctx.tlc("Ordered", "Ordered_mc.cfg", consts=dict(BASE, **dict(more, **{name: val})), workers=4, expect_ok=False,
                    count=False, tag="nv_" + name)
        if r["violated"] not in expect:
            raise Machinery("deviation %s=%s is not rejected by the model (violated=%s): vacuity" % (name, val, r["violated"]))
        rej.append("%s=%s -> %s" % (name, val, r["violated"]))
    ctx.cov["model_deviations_rejected"] = rej


def gen_phases(ctx, n, nburst, rng):
    """n mixed histories + nburst 'burst' histories (all goroutines send the same timestamps at the same moment:
    the narrowest window for a check-then-store that is not atomic)"""
    phases = []
    for h in range(n + nburst):
        burst = h >= n
        g = rng.choice([4, 4, 6, 8] if ctx.quick() else [4, 6, 8, 12, 16])
        m = rng.choice([2, 3, 4]) if g <= 8 else 2
        base = rng.choice([1, 1, 5, 1000, 2147483000])
        pat = rng.choice(["inc", "same", "dec", "mix", "mix", "zero"])
        if burst:
            g, m, pat = rng.choice([8, 8, 12]), 3, "same"
        calls = []
        for gi in range(g):
            cs = []
            for k in range(m):
                if pat == "inc":
                    ts = base + k * g + gi
                elif pat == "same":
                    ts = base + k
                elif pat == "dec":
                    ts = base + (m - k) * g - gi
                elif pat == "zero":
                    ts = rng.choice([0, 0, 1, base])
                else:
                    ts = base + rng.randrange(0, 5)
                cs.append(dict(dot=rng.random() < 0.4, ts=ts))
            calls.append(cs)
        phases.append(dict(h=h, calls=calls, pat=pat))
    return phases


def split(events):
    blocks, cur = [], None
    for e in events:
        if e["ev"] == "hist":
            cur = [e]
            blocks.append(cur)
        elif e["ev"] == "done":
            continue
        elif cur is not None:
            cur.append(e)
    return blocks


def validate(ctx, name, blocks, on_reject, max_rounds=6, group=None):
    """group: blocks with the same group(b) are judged together (the total of a fold history needs all its blocks):
    when one is rejected all of them are taken out before the rest is validated again"""
    blocks = list(blocks)
    nb, nrej = len(blocks), 0
    for rnd in range(max_rounds):
        flat = [e for b in blocks for e in b]
        if not flat:
            break
        f = ctx.write_ndjson("%s_trace_%d.ndjson" % (name, rnd), flat)
        ok, matched, res = ctx.validate_traces("OrderedTrace", "OrderedTrace.cfg", f, len(flat), len(blocks), deque=True,
                                               tag="%s_%d" % (name, rnd), timeout=3000, heap="12g")
        if ok:
            break
        if matched is None:
            raise Machinery("trace validation %s gave no verdict; log %s" % (name, res["log"]))
        pos = 0
        for bi, b in enumerate(blocks):
            if matched < pos + len(b):
                on_reject(b, matched - pos)
                nrej += 1
                if group:
                    gid = group(b)
                    blocks = [x for x in blocks if group(x) != gid]
                else:
                    del blocks[bi]
                break
            pos += len(b)
        else:
            raise Machinery("matched prefix beyond the trace")
    else:
        if max_rounds > 1:
            ctx.note("more than %d rejected histories in %s; stopped re-validating" % (max_rounds, name))
    return nb, nrej


def many_names(ctx):
    """N distinct names, one point each (the first of its name, positive timestamp, timestamps decreasing in dispatch
    order): the registers of different names are independent (Ordered!Independent), so every point must be accepted.
    The driver writes the projection of the run (names that did not arrive exactly once + known 32-bit colliding pairs +
    a seeded sample) and OrderedTrace.tla decides every projected name and the totals."""
    # (the names dispatched first are revisited at the end, after all the others: the register of a name must still hold
    # its accepted timestamp then -- 2.3 M names, more than two generations of any bounded register of 2^20 entries)
    n = ctx.pick(2300000, 4500000)
    nsample = ctx.pick(2000, 5000)
    tf = os.path.join(ctx.out, "ord_many_events.ndjson")
    res = ctx.go_test("ord", run="^TestManyNames$", timeout=ctx.pick(900, 3000), expect_ok=False,
                      env=dict(VERIF_ORD_TRACE=tf, VERIF_ORD_MANY_N=n, VERIF_ORD_MANY_SAMPLE=nsample))
    events = ctx.read_ndjson(tf) if os.path.exists(tf) else []
    if res["rc"] != 0:
        if "panic:" in res["text"] or "fatal error:" in res["text"]:
            ctx.violation("ordered-panics family=many-names", "the relay panicked while validating order under concurrent "
                          "dispatch of many names", dict(log=res["log"], tail=res["text"][-2500:]))
            return
        raise Machinery("driver ord (many names) failed (rc=%s); log %s\n%s" % (res["rc"], res["log"], res["text"][-2500:]))
    if not events or events[-1].get("ev") != "done":
        raise Machinery("driver ord (many names) did not finish")
    blocks = split(events)
    tot = dict(blocks[-1][-1])
    blocks[-1][-1].pop("oddnames", None)
    if tot.get("ev") != "total" or tot["n"] < n:
        raise Machinery("many names: no totals / fewer names than asked for: %s" % json.dumps(tot)[:300])
    if tot["garbled"]:
        raise Machinery("many names: %d points arrived at the capture route with another name/value/timestamp than sent "
                        "(not what this property is about; see %s)" % (tot["garbled"], tf))
    if tot["fwd"] == 0:
        raise Machinery("many names: nothing arrived at the capture route (vacuous)")
    ctx.log("many names: n=%d forwarded=%d out_of_order+%d not-exactly-once=%d projected=%d dispatch %d ms" %
            (tot["n"], tot["fwd"], tot["ooo"], tot["odd"], tot["listed"], tot["dispatch_ms"]))
    rejected_names = []

    def on_reject(b, i):
        ev, h = b[i], b[0]
        if h.get("why") == "revisit" and ev["ev"] in ("end", "finp"):
            rejected_names.append(h.get("name"))
            calls = [e for e in b if e["ev"] == "end"]
            sig = "register-forgot-accepted-timestamp family=many-names revisit"
            what = ("name %r had a point accepted at ts=%s, then %d points of other names were dispatched, then the name came back: "
                    "a point with the same timestamp was %s and a newer one was %s (a point is forwarded only if its timestamp is "
                    "strictly greater than every timestamp accepted for its name before)" % (
                        h.get("name"), b[1].get("ts"), tot["n"], "FORWARDED" if len(calls) > 1 and calls[1]["fwd"] else "rejected",
                        "forwarded" if len(calls) > 2 and calls[2]["fwd"] else "rejected"))
            ctx.violation(sig, what, dict(name=h.get("name"), events=b[:i + 1]))
            return
        if ev["ev"] == "end":
            rejected_names.append(h.get("name"))
            sig = "first-point-of-name-rejected family=many-names"
            what = ("among %d distinct names each sent once (positive timestamps, decreasing in dispatch order) the only point "
                    "of %r (ts=%s) %s; in all, %d names did not arrive exactly once, out_of_order counter +%d" %
                    (tot["n"], h.get("name"), b[1].get("ts"),
                     "was not forwarded" if not ev["fwd"] else "arrived %s times at the route" % ev["times"],
                     tot["odd"], tot["ooo"]))
            ctx.violation(sig, what, dict(name=h.get("name"), why_projected=h.get("why"), events=b[:i + 1],
                                          names_not_exactly_once=tot.get("oddnames", [])[:40], totals={k: tot[k] for k in
                                          ("n", "fwd", "ooo", "odd", "goroutines", "ts_hi", "ts_lo")}))
        elif ev["ev"] == "finp":
            sig = "rejection-accounting family=many-names"
            what = "name %r: bad-metrics record present=%s (call %s) does not match the outcome of its only call" % (
                h.get("name"), ev["bad"], ev["badcall"])
            ctx.violation(sig, what, dict(events=b[:i + 1]))
        elif ev["ev"] == "total" and rejected_names:
            ctx.note("many names: totals not judged (the blocks of the rejected names were taken out of the trace)")
        elif ev["ev"] == "total":
            sig = "totals family=many-names"
            what = ("%d calls, every projected name accepted, but %d points at the route and out_of_order counter +%d" %
                    (ev["n"], ev["fwd"], ev["ooo"]))
            ctx.violation(sig, what, dict(total={k: v for k, v in ev.items() if k != "oddnames"}))
        else:
            ctx.violation("trace-unmatched family=many-names ev=%s" % ev["ev"], "event not accepted: %s" % json.dumps(ev),
                          dict(events=b[:i + 1]))

    name_blocks = blocks[:-1]
    nb, nrej = validate(ctx, "many", blocks, on_reject)
    if nrej and tot["odd"] > nrej:
        ctx.note("many names: %d names did not arrive exactly once; TLC decided %d of them (re-validation stops after 6)" %
                 (tot["odd"], nrej))
    if not ctx.violations:
        # binding: a point of the sample pretended lost, and a counter increase pretended, must be rejected by the trace spec
        cand = copy.deepcopy([e for b in name_blocks[:25] for e in b] + blocks[-1])
        idx = next(i for i, e in enumerate(cand) if e["ev"] == "end" and e["fwd"])
        cand[idx]["fwd"], cand[idx]["times"] = False, 0
        hit = []
        validate(ctx, "selftest3", split(cand), lambda b, i: hit.append(b[i]), max_rounds=1)
        if not hit or hit[0]["ev"] != "end":
            raise Machinery("binding self-test failed: a rejected first point of a name was accepted by the trace spec")
        cand = copy.deepcopy([e for b in name_blocks[:25] for e in b] + blocks[-1])
        cand[-1]["ooo"] += 1
        hit = []
        validate(ctx, "selftest4", split(cand), lambda b, i: hit.append(b[i]), max_rounds=1)
        if not hit or hit[0]["ev"] != "total":
            raise Machinery("binding self-test failed: an unexplained out_of_order count was accepted by the trace spec")
    why = {}
    for b in name_blocks:
        w = b[0].get("why", "?").split(":")[0]
        why[w] = why.get(w, 0) + 1
    if not ctx.violations and tot.get("revisited", 0) < 20:
        raise Machinery("many names: only %s names were revisited" % tot.get("revisited"))
    ctx.cov["many_names_revisited_after_all_others"] = tot.get("revisited", 0)
    ctx.cov["many_names"] = dict(names=tot["n"], forwarded=tot["fwd"], out_of_order=tot["ooo"], not_exactly_once=tot["odd"],
                                 projected=why, goroutines=tot["goroutines"], known_32bit_colliding_pairs=tot["pairs"],
                                 expected_pairs_32bit_key=round(tot["n"] ** 2 / 2.0 / 2 ** 32, 1),
                                 expected_pairs_64bit_key=tot["n"] ** 2 / 2.0 / 2 ** 64)
    return tot["n"]


def gen_fold(ctx, n, rng):
    """histories on a table with a rewriter that folds the nk input names of the history into one emitted name and a
    blacklist entry for (at most) one of them.  Patterns: seq = one goroutine, the names one after the other, every name
    with increasing timestamps of its own but LOWER than those of the names before it; lanes = goroutines per name, every
    name in its own timestamp range; mix = every goroutine sends random names with timestamps from a range of 6.
    The points of the blacklisted name come from one goroutine with strictly increasing positive timestamps (each is newer
    than all earlier points of its name: the property leaves no room for rejecting them; where a stale blacklisted point
    is accounted is C02's matter)."""
    phases = []
    for h in range(n):
        pat = "seq" if h < 8 else rng.choice(["seq", "lanes", "lanes", "mix", "mix"])
        nplain = rng.choice([2, 2, 3, 4])
        has_blk = rng.random() < 0.6
        nk = nplain + (1 if has_blk else 0)
        blk = rng.randrange(nk) if has_blk else -1
        plain = [i for i in range(nk) if i != blk]
        base = rng.choice([1, 1, 5, 1000, 1500000000, 2147480000])
        dot = lambda: rng.random() < 0.3
        calls = []
        if pat == "seq":
            cs = []
            rounds = rng.choice([2, 3])
            for r in range(rounds):
                for pos, k in enumerate(plain):
                    ts = base + (len(plain) - pos) * 50 + r * 10
                    cs.append(dict(k=k, dot=dot(), ts=ts))
                    if rng.random() < 0.35:      # the same or an older timestamp again: to be rejected
                        cs.append(dict(k=k, dot=dot(), ts=ts - rng.choice([0, 0, 1])))
            calls.append(cs)
        elif pat == "lanes":
            offs = list(range(len(plain)))
            rng.shuffle(offs)
            for pos, k in enumerate(plain):
                lanes = rng.choice([1, 2, 2])
                m = rng.choice([2, 3, 4])
                sub = rng.choice(["inc", "same", "dec", "mix"])
                for gi in range(lanes):
                    cs = []
                    for j in range(m):
                        if sub == "inc":
                            ts = j * lanes + gi
                        elif sub == "same":
                            ts = j
                        elif sub == "dec":
                            ts = (m - j) * lanes - gi
                        else:
                            ts = rng.randrange(0, 5)
                        cs.append(dict(k=k, dot=dot(), ts=base + offs[pos] * 40 + ts))
                    calls.append(cs)
            rng.shuffle(calls)
        else:
            g = rng.choice([3, 4, 6])
            m = rng.choice([2, 3, 4])
            for gi in range(g):
                calls.append([dict(k=rng.choice(plain), dot=dot(), ts=base + rng.randrange(0, 6)) for _ in range(m)])
        if has_blk:
            gi = rng.randrange(len(calls))
            cs = calls[gi]
            nb = rng.choice([2, 3, 4])
            # newer than anything else in the history: a register shared with the blacklisted name would show
            pos = sorted(rng.randrange(len(cs) + 1) for _ in range(nb))
            for j in reversed(range(nb)):
                cs.insert(pos[j], dict(k=blk, dot=dot(), ts=base + 500 + j * 7))
        phases.append(dict(h=h, fam="fold", pat=pat, nk=nk, blk=blk, rw=rng.choice(["regex", "plain"]), calls=calls))
    return phases


def fold_family(ctx, rng):
    phases = gen_fold(ctx, ctx.pick(120, 700), rng)
    sf = ctx.write_ndjson("ord_fold_scn.ndjson", phases)
    tf = os.path.join(ctx.out, "ord_fold_events.ndjson")
    res = ctx.go_test("ord", run="^TestFold$", timeout=ctx.pick(900, 3000), expect_ok=False,
                      env=dict(VERIF_ORD_SCN=sf, VERIF_ORD_TRACE=tf))
    events = ctx.read_ndjson(tf) if os.path.exists(tf) else []
    if res["rc"] != 0:
        if "panic:" in res["text"] or "fatal error:" in res["text"]:
            ctx.violation("ordered-panics family=fold", "the relay panicked while validating order on a table with rewriters "
                          "and a blacklist", dict(log=res["log"], tail=res["text"][-2500:]))
            return 0
        raise Machinery("driver ord (fold) failed (rc=%s); log %s\n%s" % (res["rc"], res["log"], res["text"][-2500:]))
    if not events or events[-1].get("ev") != "done":
        raise Machinery("driver ord (fold) did not finish")
    blocks = split(events)
    by_h = {p["h"]: p for p in phases}
    if len(blocks) != sum(p["nk"] + 1 for p in phases):
        raise Machinery("fold: %d blocks recorded, %d expected" % (len(blocks), sum(p["nk"] + 1 for p in phases)))

    def on_reject(b, i):
        ev, hd = b[i], b[0]
        p = by_h.get(hd["h"], {})
        about = ("history with %d input names folded by a %s rewriter into %r%s; block = the calls on input name %r" % (
            p.get("nk", 0), p.get("rw"), hd.get("emitted"),
            (", input name #%d blacklisted" % p["blk"]) if p.get("blk", -1) >= 0 else "", hd.get("name")))
        if ev["ev"] == "end":
            begun = [e for e in b[1:i] if e["ev"] == "begin"]
            mine = next((e for e in begun if e["c"] == ev["c"]), {})
            first = len(begun) == 1 and not ev["fwd"] and mine.get("ts", 0) > 0
            sig = "not-linearizable family=fold pattern=%s%s" % (p.get("pat"), " first-point-of-input-name-rejected" if first else "")
            what = ("no order of the critical sections of a per-input-name register explains the results of the calls on one "
                    "input name: call %s (ts=%s) returned forwarded=%s (times=%s)%s; %s" % (
                        ev["c"], mine.get("ts"), ev["fwd"], ev.get("times"),
                        ", and it is the first point of that input name" if first else "", about))
        elif ev["ev"] == "endx":
            sig = "blacklisted-point family=fold pattern=%s" % p.get("pat")
            what = "call %s on a blacklisted input name: forwarded=%s times=%s is not explained; %s" % (
                ev["c"], ev["fwd"], ev.get("times"), about)
        elif ev["ev"] == "finp":
            sig = "rejection-accounting family=fold pattern=%s" % p.get("pat")
            what = "bad-metrics record present=%s (call %s) does not match the rejected calls of the input name; %s" % (
                ev["bad"], ev["badcall"], about)
        elif ev["ev"] == "total":
            sig = "totals family=fold pattern=%s" % p.get("pat")
            what = ("%d calls, %d points at the route, out_of_order counter +%d: not what the decisions on the input names of "
                    "the history explain" % (ev["n"], ev["fwd"], ev["ooo"]))
        else:
            sig = "trace-unmatched family=fold ev=%s" % ev["ev"]
            what = "event not accepted: %s" % json.dumps(ev)
        ctx.violation(sig, what, dict(phase=p, block=hd, events=b[:i + 1][-60:]))
        ctx.sample(dict(family="fold", rejected_at=ev, input_name=hd.get("name"), emitted=hd.get("emitted"),
                        calls=[e for e in b if e["ev"] in ("begin", "end", "endx")][:24]))

    grp = lambda b: b[0]["h"]
    nb, nrej = validate(ctx, "fold", blocks, on_reject, max_rounds=3, group=grp)

    # coverage (not a verdict): histories in which a point was forwarded although a sibling input name (same emitted name)
    # had a point with a timestamp >= its own forwarded in a call that had returned before: one register for the emitted
    # name could not have accepted it
    ends = [e for b in blocks for e in b if e["ev"] == "end"]
    nfwd = sum(1 for e in ends if e["fwd"])
    sens = set()
    hist = {}
    for b in blocks:
        if b[0]["fam"] == "fold":
            hist.setdefault(b[0]["h"], []).append(b)
    for h, bs in hist.items():
        if by_h[h]["pat"] != "seq":      # one goroutine: call ids are in program order = decision order
            continue
        ts_of = {e["c"]: (b[0]["k"], e["ts"]) for b in bs for e in b if e["ev"] == "begin"}
        fw = {e["c"]: e["fwd"] for b in bs for e in b if e["ev"] in ("end", "endx")}
        done = []
        for c in sorted(ts_of):
            k, ts = ts_of[c]
            if fw.get(c):
                if any(k2 != k and t2 >= ts for k2, t2 in done):
                    sens.add(h)
                done.append((k, ts))
    drops = sum(1 for b in blocks for e in b if e["ev"] == "endx" and not e["fwd"])
    if not ctx.violations:
        if not ends or nfwd == 0 or nfwd == len(ends):
            raise Machinery("fold: vacuous: %d calls, %d forwarded" % (len(ends), nfwd))
        if not sens:
            raise Machinery("fold: no history in which a point was forwarded below a sibling name's accepted timestamp (vacuous)")
        if drops == 0:
            raise Machinery("fold: no point of a blacklisted name was dropped (vacuous for the blacklist)")
        # binding: a forwarded point pretended rejected, and an unexplained counter increase, must be rejected by the trace spec
        hs = sorted(sens)[:6]
        cand = copy.deepcopy([e for b in blocks if b[0]["h"] in hs for e in b])
        idx = next(i for i, e in enumerate(cand) if e["ev"] == "end" and e["fwd"])
        cand[idx]["fwd"], cand[idx]["times"] = False, 0
        hit = []
        validate(ctx, "selftest5", split(cand), lambda b, i: hit.append(b[i]), max_rounds=1)
        if not hit or hit[0]["ev"] != "end":
            raise Machinery("binding self-test failed (fold): a rejected fresh point was accepted by the trace spec")
        cand = copy.deepcopy([e for b in blocks if b[0]["h"] in hs for e in b])
        idx = next(i for i, e in enumerate(cand) if e["ev"] == "total")
        cand[idx]["ooo"] += 1
        hit = []
        validate(ctx, "selftest6", split(cand), lambda b, i: hit.append(b[i]), max_rounds=1)
        if not hit or hit[0]["ev"] != "total":
            raise Machinery("binding self-test failed (fold): an unexplained out_of_order count was accepted by the trace spec")
    ctx.cov["fold_family"] = dict(histories=len(phases), input_name_blocks=nb - len(phases), calls=len(ends) + drops,
                                  forwarded=nfwd, rejected=len(ends) - nfwd, dropped_by_blacklist=drops,
                                  histories_forwarding_below_a_sibling_timestamp=len(sens),
                                  patterns={k: sum(1 for p in phases if p["pat"] == k) for k in ("seq", "lanes", "mix")})
    return len(ends) + drops


def run(ctx):
    model_check(ctx)
    rng = random.Random(ctx.seed)
    phases = gen_phases(ctx, ctx.pick(150, 1200), ctx.pick(250, 800), rng)
    sf = ctx.write_ndjson("ord_scn.ndjson", phases)
    tf = os.path.join(ctx.out, "ord_events.ndjson")
    res = ctx.go_test("ord", run="^TestOrdered$", timeout=ctx.pick(900, 3000), expect_ok=False,
                      env=dict(VERIF_ORD_SCN=sf, VERIF_ORD_TRACE=tf))
    events = ctx.read_ndjson(tf) if os.path.exists(tf) else []
    if res["rc"] != 0:
        if "panic:" in res["text"] or "fatal error:" in res["text"]:
            ctx.violation("ordered-panics", "the relay panicked while validating order under concurrent dispatch",
                          dict(log=res["log"], tail=res["text"][-2500:]))
        else:
            raise Machinery("driver ord failed (rc=%s); log %s\n%s" % (res["rc"], res["log"], res["text"][-2500:]))
    elif not events or events[-1].get("ev") != "done":
        raise Machinery("driver ord did not finish")
    blocks = split(events)
    by_h = {p["h"]: p for p in phases}

    def on_reject(b, i):
        ev = b[i]
        p = by_h.get(b[0]["h"], {})
        if ev["ev"] == "end":
            sig = "not-linearizable pattern=%s" % p.get("pat")
            what = ("no order of the critical sections explains the results of the calls on one metric key: call %s "
                    "returned forwarded=%s (times=%s)" % (ev["c"], ev["fwd"], ev.get("times")))
        elif ev["ev"] == "fin":
            sig = "rejection-accounting pattern=%s" % p.get("pat")
            what = ("after all calls returned: out_of_order counter +%s, bad-metrics record present=%s (call %s): does not "
                    "match the rejected calls" % (ev["ooo"], ev["bad"], ev["badcall"]))
        else:
            sig = "trace-unmatched ev=%s" % ev["ev"]
            what = "event not accepted: %s" % json.dumps(ev)
        ctx.violation(sig, what, dict(phase=p, events=b[:i + 1][-60:]))
        ctx.sample(dict(rejected_at=ev, calls=[e for e in b if e["ev"] in ("begin", "end")][:24]))

    nb, nrej = validate(ctx, "ord", blocks, on_reject)

    if not ctx.violations:
        selftest(ctx, blocks)

    nmany = nfold = 0
    if not any(v.get("sig", "").startswith("ordered-panics") for v in ctx.violations if isinstance(v, dict)):
        nfold = fold_family(ctx, random.Random(ctx.seed * 31 + 6)) or 0
        nmany = many_names(ctx) or 0

    ends = [e for b in blocks for e in b if e["ev"] == "end"]
    nfwd = sum(1 for e in ends if e["fwd"])
    if not ctx.violations and (not ends or nfwd == 0 or nfwd == len(ends)):
        raise Machinery("vacuous: %d calls, %d forwarded" % (len(ends), nfwd))
    # overlap actually achieved (max number of calls in flight per history)
    maxpend = 0
    overl = 0
    for b in blocks:
        cur = mx = 0
        for e in b:
            if e["ev"] == "begin":
                cur += 1
                mx = max(mx, cur)
            elif e["ev"] == "end":
                cur -= 1
        maxpend = max(maxpend, mx)
        overl += 1 if mx >= 2 else 0
    if overl == 0 and not ctx.violations:
        raise Machinery("no history had overlapping calls (vacuous for the concurrency claim)")
    cov = ctx.cov
    cov["evaluations"] = len(ends) + nmany + nfold
    cov["distinct_nontrivial"] = overl
    cov["calls_forwarded"] = nfwd
    cov["calls_rejected"] = len(ends) - nfwd
    cov["max_calls_in_flight"] = maxpend
    cov["rule"] = ("histories = one metric key each (with and without leading dot), 4-16 goroutines x 2-4 calls, timestamp patterns "
                   "increasing / equal / decreasing / random-in-a-range-of-5 / zeros, bases 1..2^31; every call and the final "
                   "accounting judged by OrderedTrace.tla (linearization search); non-trivial = histories with >= 2 calls in flight; "
                   "plus the many-names run: 2 300 000 (quick) / 4 500 000 (thorough) distinct realistic names (the first 40 revisited at the end with an equal and a newer timestamp) from 8 templates, one "
                   "point each, timestamps decreasing in dispatch order, 4 goroutines with disjoint name sets, judged by "
                   "OrderedTrace.tla on the projection to the names that did not arrive exactly once + 26 pairs colliding under "
                   "common 32-bit hashes + a seeded sample, and on the totals; plus the fold family: 120 (quick) / 700 (thorough) "
                   "histories on a table with order validation, a rewriter (regex or substring) folding the 2-5 input names of "
                   "the history into one emitted name and a blacklist entry on one of them, patterns seq / lanes / mix, judged "
                   "by OrderedTrace.tla input name by input name (register = input name) and on the totals of the history")
    for b in blocks:
        if len(cov["samples"]) < 2 and any(e["ev"] == "end" and not e["fwd"] for e in b):
            ctx.sample(dict(history=[{k: v for k, v in e.items() if k in ("ev", "c", "ts", "dot", "fwd", "ooo", "bad")} for e in b][:30]))
    ctx.assumptions += ["many names: a name whose point arrived exactly once at the route and that is not in the sample is taken "
                        "as accepted without a TLC verdict of its own (names are independent: Ordered!Independent is "
                        "model-checked); the totals (calls, points at the route, counter) are judged by TLC",
                        "one register per history: every goroutine of a history works on the same key, so the increase of the "
                        "process-global out_of_order counter during the history belongs to it",
                        "bad-metrics keeps one record per key: its presence and that it holds one of the rejected calls is checked, "
                        "not one record per rejection",
                        "fold family: the points of a blacklisted name are all newer than the earlier points of that name (where a "
                        "stale point of a blacklisted name is accounted, and whether a blacklisted point occupies the register, is "
                        "not asserted here)",
                        "timestamps <= 2^31-1 (TLC integers)"]
    cov["trusted_base"] = ["TLC", "harness/ord driver (records only)", "capture route (harness) as the observation of forwarding"]


def selftest(ctx, blocks):
    cand = [b for b in blocks if any(e["ev"] == "end" and not e["fwd"] for e in b)][:20]
    if not cand:
        raise Machinery("binding self-test: no history with a rejection")
    flat = copy.deepcopy([e for b in cand for e in b])
    idx = next(i for i, e in enumerate(flat) if e["ev"] == "end" and not e["fwd"])
    flat[idx]["fwd"], flat[idx]["times"] = True, 1          # pretend a rejected point was forwarded
    hit = []
    validate(ctx, "selftest1", split(flat), lambda b, i: hit.append(b[i]), max_rounds=1)
    if not hit:
        raise Machinery("binding self-test failed: a forwarded out-of-order point was accepted by the trace spec")
    flat = copy.deepcopy([e for b in cand for e in b])
    idx = next(i for i, e in enumerate(flat) if e["ev"] == "fin" and e["ooo"] > 0)
    flat[idx]["ooo"] -= 1
    hit = []
    validate(ctx, "selftest2", split(flat), lambda b, i: hit.append(b[i]), max_rounds=1)
    if not hit or hit[0]["ev"] != "fin":
        raise Machinery("binding self-test failed: an uncounted rejection was accepted by the trace spec")
    ctx.cov["binding_selftests"] = "passed"
