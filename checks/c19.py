"""C19 — order validation accepts a point only if it is newer than all accepted before."""
import copy, json, os, random
from vlib.core import Machinery

LEVEL = "model_checking"

BASE = dict(Keys={1}, MaxTs=2, NCallers=3, MaxCalls=3, CmpStrict=True, WriteInLock=True, StoreFirst=False,
            CountReject=True, ReturnOnReject=True)


def model_check(ctx):
    if os.environ.get("VERIF_SKIP_MC"):      # only for trying changes of the Go code out (scratch worktree): the model is unaffected
        ctx.note("model checking skipped (VERIF_SKIP_MC)")
        return
    grid = [dict(BASE), dict(BASE, Keys={1, 2}, NCallers=2)]
    if not ctx.quick():
        grid += [dict(BASE, MaxTs=3, MaxCalls=4), dict(BASE, Keys={1, 2}, NCallers=3, MaxCalls=4)]
    for c in grid:
        ctx.tlc("Ordered", "Ordered_mc.cfg", consts=c, workers=ctx.pick(4, 6), timeout=3000)
    dev = [("CmpStrict", False, {"Mono", "OnlyNewer"}), ("WriteInLock", False, {"Mono", "OnlyNewer"}),
           ("StoreFirst", True, {"Mono", "OnlyNewer"}), ("CountReject", False, {"Accounting"}),
           ("ReturnOnReject", False, {"Accounting", "FwdOK"})]
    rej = []
    for name, val, expect in dev:
        r = ctx.tlc("Ordered", "Ordered_mc.cfg", consts=dict(BASE, **{name: val}), workers=4, expect_ok=False, count=False,
                    tag="nv_" + name)
        if r["violated"] not in expect:
            raise Machinery("deviation %s=%s is not rejected by the model (violated=%s): vacuity" % (name, val, r["violated"]))
        rej.append("%s=%s -> %s" % (name, val, r["violated"]))
    ctx.cov["model_deviations_rejected"] = rej


def gen_phases(ctx, n, nburst, rng):
    """n mixed histories + nburst 'burst' histories (all goroutines send the same timestamps at the same moment:
    the narrowest window for a check-then-store that is not atomic)"""
    phases = []
    for h in range(n + nburst):
        burst = h >= n
        g = rng.choice([4, 4, 6, 8] if ctx.quick() else [4, 6, 8, 12, 16])
        m = rng.choice([2, 3, 4]) if g <= 8 else 2
        base = rng.choice([1, 1, 5, 1000, 2147483000])
        pat = rng.choice(["inc", "same", "dec", "mix", "mix", "zero"])
        if burst:
            g, m, pat = rng.choice([8, 8, 12]), 3, "same"
        calls = []
        for gi in range(g):
            cs = []
            for k in range(m):
                if pat == "inc":
                    ts = base + k * g + gi
                elif pat == "same":
                    ts = base + k
                elif pat == "dec":
                    ts = base + (m - k) * g - gi
                elif pat == "zero":
                    ts = rng.choice([0, 0, 1, base])
                else:
                    ts = base + rng.randrange(0, 5)
                cs.append(dict(dot=rng.random() < 0.4, ts=ts))
            calls.append(cs)
        phases.append(dict(h=h, calls=calls, pat=pat))
    return phases


def split(events):
    blocks, cur = [], None
    for e in events:
        if e["ev"] == "hist":
            cur = [e]
            blocks.append(cur)
        elif e["ev"] == "done":
            continue
        elif cur is not None:
            cur.append(e)
    return blocks


def validate(ctx, name, blocks, on_reject, max_rounds=6):
    blocks = list(blocks)
    nb, nrej = len(blocks), 0
    for rnd in range(max_rounds):
        flat = [e for b in blocks for e in b]
        if not flat:
            break
        f = ctx.write_ndjson("%s_trace_%d.ndjson" % (name, rnd), flat)
        ok, matched, res = ctx.validate_traces("OrderedTrace", "OrderedTrace.cfg", f, len(flat), len(blocks), deque=True,
                                               tag="%s_%d" % (name, rnd), timeout=3000, heap="12g")
        if ok:
            break
        if matched is None:
            raise Machinery("trace validation %s gave no verdict; log %s" % (name, res["log"]))
        pos = 0
        for bi, b in enumerate(blocks):
            if matched < pos + len(b):
                on_reject(b, matched - pos)
                nrej += 1
                del blocks[bi]
                break
            pos += len(b)
        else:
            raise Machinery("matched prefix beyond the trace")
    else:
        if max_rounds > 1:
            ctx.note("more than %d rejected histories in %s; stopped re-validating" % (max_rounds, name))
    return nb, nrej


def run(ctx):
    model_check(ctx)
    rng = random.Random(ctx.seed)
    phases = gen_phases(ctx, ctx.pick(150, 1200), ctx.pick(250, 800), rng)
    sf = ctx.write_ndjson("ord_scn.ndjson", phases)
    tf = os.path.join(ctx.out, "ord_events.ndjson")
    res = ctx.go_test("ord", run="^TestOrdered$", timeout=ctx.pick(900, 3000), expect_ok=False,
                      env=dict(VERIF_ORD_SCN=sf, VERIF_ORD_TRACE=tf))
    events = ctx.read_ndjson(tf) if os.path.exists(tf) else []
    if res["rc"] != 0:
        if "panic:" in res["text"] or "fatal error:" in res["text"]:
            ctx.violation("ordered-panics", "the relay panicked while validating order under concurrent dispatch",
                          dict(log=res["log"], tail=res["text"][-2500:]))
        else:
            raise Machinery("driver ord failed (rc=%s); log %s\n%s" % (res["rc"], res["log"], res["text"][-2500:]))
    elif not events or events[-1].get("ev") != "done":
        raise Machinery("driver ord did not finish")
    blocks = split(events)
    by_h = {p["h"]: p for p in phases}

    def on_reject(b, i):
        ev = b[i]
        p = by_h.get(b[0]["h"], {})
        if ev["ev"] == "end":
            sig = "not-linearizable pattern=%s" % p.get("pat")
            what = ("no order of the critical sections explains the results of the calls on one metric key: call %s "
                    "returned forwarded=%s (times=%s)" % (ev["c"], ev["fwd"], ev.get("times")))
        elif ev["ev"] == "fin":
            sig = "rejection-accounting pattern=%s" % p.get("pat")
            what = ("after all calls returned: out_of_order counter +%s, bad-metrics record present=%s (call %s): does not "
                    "match the rejected calls" % (ev["ooo"], ev["bad"], ev["badcall"]))
        else:
            sig = "trace-unmatched ev=%s" % ev["ev"]
            what = "event not accepted: %s" % json.dumps(ev)
        ctx.violation(sig, what, dict(phase=p, events=b[:i + 1][-60:]))
        ctx.sample(dict(rejected_at=ev, calls=[e for e in b if e["ev"] in ("begin", "end")][:24]))

    nb, nrej = validate(ctx, "ord", blocks, on_reject)

    if not ctx.violations:
        selftest(ctx, blocks)

    ends = [e for b in blocks for e in b if e["ev"] == "end"]
    nfwd = sum(1 for e in ends if e["fwd"])
    if not ctx.violations and (not ends or nfwd == 0 or nfwd == len(ends)):
        raise Machinery("vacuous: %d calls, %d forwarded" % (len(ends), nfwd))
    # overlap actually achieved (max number of calls in flight per history)
    maxpend = 0
    overl = 0
    for b in blocks:
        cur = mx = 0
        for e in b:
            if e["ev"] == "begin":
                cur += 1
                mx = max(mx, cur)
            elif e["ev"] == "end":
                cur -= 1
        maxpend = max(maxpend, mx)
        overl += 1 if mx >= 2 else 0
    if overl == 0 and not ctx.violations:
        raise Machinery("no history had overlapping calls (vacuous for the concurrency claim)")
    cov = ctx.cov
    cov["evaluations"] = len(ends)
    cov["distinct_nontrivial"] = overl
    cov["calls_forwarded"] = nfwd
    cov["calls_rejected"] = len(ends) - nfwd
    cov["max_calls_in_flight"] = maxpend
    cov["rule"] = ("histories = one metric key each (with and without leading dot), 4-16 goroutines x 2-4 calls, timestamp patterns "
                   "increasing / equal / decreasing / random-in-a-range-of-5 / zeros, bases 1..2^31; every call and the final "
                   "accounting judged by OrderedTrace.tla (linearization search); non-trivial = histories with >= 2 calls in flight")
    for b in blocks:
        if len(cov["samples"]) < 2 and any(e["ev"] == "end" and not e["fwd"] for e in b):
            ctx.sample(dict(history=[{k: v for k, v in e.items() if k in ("ev", "c", "ts", "dot", "fwd", "ooo", "bad")} for e in b][:30]))
    ctx.assumptions += ["one register per history: every goroutine of a history works on the same key, so the increase of the "
                        "process-global out_of_order counter during the history belongs to it",
                        "bad-metrics keeps one record per key: its presence and that it holds one of the rejected calls is checked, "
                        "not one record per rejection",
                        "timestamps <= 2^31-1 (TLC integers)"]
    cov["trusted_base"] = ["TLC", "harness/ord driver (records only)", "capture route (harness) as the observation of forwarding"]


def selftest(ctx, blocks):
    cand = [b for b in blocks if any(e["ev"] == "end" and not e["fwd"] for e in b)][:20]
    if not cand:
        raise Machinery("binding self-test: no history with a rejection")
    flat = copy.deepcopy([e for b in cand for e in b])
    idx = next(i for i, e in enumerate(flat) if e["ev"] == "end" and not e["fwd"])
    flat[idx]["fwd"], flat[idx]["times"] = True, 1          # pretend a rejected point was forwarded
    hit = []
    validate(ctx, "selftest1", split(flat), lambda b, i: hit.append(b[i]), max_rounds=1)
    if not hit:
        raise Machinery("binding self-test failed: a forwarded out-of-order point was accepted by the trace spec")
    flat = copy.deepcopy([e for b in cand for e in b])
    idx = next(i for i, e in enumerate(flat) if e["ev"] == "fin" and e["ooo"] > 0)
    flat[idx]["ooo"] -= 1
    hit = []
    validate(ctx, "selftest2", split(flat), lambda b, i: hit.append(b[i]), max_rounds=1)
    if not hit or hit[0]["ev"] != "fin":
        raise Machinery("binding self-test failed: an uncounted rejection was accepted by the trace spec")
    ctx.cov["binding_selftests"] = "passed"
