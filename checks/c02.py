"""C02 — only valid metrics are forwarded; every rejection is counted and reported."""
import json, os, random
from checks import displib
from checks.displib import consts
from vlib.core import Machinery

LEVEL = "model_checking"

K = ["k"]
CAP = dict(kind="capture", acc=K, dests=[])
FAMILIES = {
    "agg+capture": dict(black=[], rw=[], aggs=[dict(acc=K, drop=False)], routes=[CAP]),
    "blacklist-all": dict(black=[K], rw=[], aggs=[dict(acc=K, drop=False)], routes=[CAP]),
    "no-route": dict(black=[], rw=[], aggs=[dict(acc=K, drop=False)], routes=[]),
    "dropraw": dict(black=[], rw=[], aggs=[dict(acc=K, drop=True)], routes=[CAP]),
    "real-routes": dict(black=[[]], rw=[], aggs=[], routes=[dict(kind="all", acc=K, dests=[K, []]),
                                                          dict(kind="first", acc=K, dests=[[], K, K])]),
    "route-rejects": dict(black=[], rw=[], aggs=[], routes=[dict(kind="capture", acc=[], dests=[]), CAP]),
}
LVL = ["none", "medium", "strict", ""]
LVM = ["none", "medium", ""]
ORD = list(displib.ORDERS)          # validate_order as written: absent, "false", "true"
RELS = ["older", "equal", "newer", "older"]


def with_followups(rng, lines, nchains):
    """after some lines that must be accepted (whole-second timestamp) a short chain of points with the very same key
    and an older / equal / newer timestamp than an earlier point of the chain; what the order check has to say about
    them is decided by the register of DispatchTrace.tla"""
    bases = [i for i, l in enumerate(lines) if l["allowed"] == [True] and l["line"]["nf"] == 3 and l["line"]["ts"] == "int"]
    chosen = set(rng.sample(bases, min(nchains, len(bases))))
    out = []
    for i, l in enumerate(lines):
        out.append(l)
        if i in chosen:
            b = len(out) - 1
            for k in range(rng.randint(2, 4)):
                out.append(dict(nm="k", line=dict(l["line"], val="int", ts="int"), allowed=[True],
                                rel=RELS[rng.randrange(len(RELS))], ref=rng.randint(b, b + k)))
    return out


def eff(s):
    return s or "medium"


def run(ctx):
    q = ctx.quick()
    rng = random.Random(ctx.seed)
    # 1. TLC: the decision table is sane (ValidateGen!Sane over every enumerated line class) and prints the classes
    #    with their allowed verdicts; the gate itself (invalid => counted once, nothing else happens) is part of
    #    Table.tla's Dispatch loop, checked against the declarative statement
    lines = displib.gen_lines(ctx, ctx.pick(2, 3))
    skip_mc = os.environ.get("VERIF_DEV_SKIP_MC") == "1"      # development aid for trying code mutants out quickly
    displib.mc_grid(ctx, [] if skip_mc else [consts(names=2, black=1, rw=1, agg=1, routes=1, dests=1, kinds={"capture", "all"}, orders=ORD)] if q else
                    [consts(names=2, black=1, rw=0, agg=1, routes=2, dests=1, kinds={"capture", "all"}, orders=ORD)], workers=ctx.pick(4, 6))
    if not skip_mc:
        displib.mc_nonvacuity(ctx, ["no_return_invalid", "invalid_not_counted", "invalid_counted_as_ooo", "ooo_counted_invalid",
                                    "order_check_when_off", "no_return_ooo", "order_before_validate"])

    # 2. cases: line classes x (level pair, validate_order) as written in the configuration text x small table shapes
    fams = sorted(FAMILIES)
    cases = []
    per = ctx.pick(160, None)
    reps = 1
    for ci, (lvl, lvm, od) in enumerate([(a, b, c) for a in LVL for b in LVM for c in ORD]):
        if per:
            # always some classes whose verdict depends on this very level pair, the rest sampled
            dep = [l for l in lines if l["v"][eff(lvl)][eff(lvm)] != l["v"]["none"]["none"]
                   or l["v"][eff(lvl)][eff(lvm)] != l["v"]["strict"]["medium"]]
            pickd = rng.sample(dep, min(len(dep), per // 2)) + rng.sample(lines, per // 2)
        else:
            pickd = list(lines) * reps
        rng.shuffle(pickd)
        use = fams if not q else [fams[(ci + j + ctx.seed) % len(fams)] for j in range(2)]
        buckets = {f: [] for f in use}
        for i, l in enumerate(pickd):
            buckets[use[i % len(use)]].append(l)
        for f in use:
            ls = [dict(nm="k", line=l["line"], allowed=l["v"][eff(lvl)][eff(lvm)]) for l in buckets[f]]
            cases.append(dict(id=len(cases), names=K, t=FAMILIES[f], fam=f, lvl=lvl, lvm=lvm, ord=od,
                              lines=with_followups(rng, ls, ctx.pick(3, 12))))
    # every third table receives its lines as the plain-text input does (input.Plain.Handle on a stream holding the line:
    # "every received line increments the inbound counter exactly once" is about lines as received); some of those with
    # names of several KiB (the plain-text listener takes lines up to 64 KiB)
    nlong = 0
    for c in cases:
        if (c["id"] + ctx.seed) % 3 == 0:
            c["via"] = "plain"
            if (c["id"] + ctx.seed) % 9 == 0 and nlong < ctx.pick(8, 60):
                c["long"] = rng.choice([3000, 6000, 12000, 30000])
                c["lines"] = c["lines"][:ctx.pick(60, 150)]
                nlong += 1
    nl = sum(len(c["lines"]) for c in cases)
    ctx.log("cases: %d tables (12 level pairs x 3 validate_order settings as written x table shapes), %d lines from %d classes" % (
        len(cases), nl, len(lines)))

    # 3. the real table, created through the configuration path
    events, crashed = displib.run_driver(ctx, cases, "c02", timeout=ctx.pick(900, 3000))
    if crashed:
        ctx.violation("dispatch-panics", "Table.Dispatch panicked or hung on a generated line", crashed)
        ctx.sample(dict(panic=crashed["tail"][-300:]))

    # 4. TLC decides
    byid = {c["id"]: c for c in cases}

    def on_reject(block, idx):
        ev = block[idx]
        case = byid[ev["id"]]
        ln = case["lines"][ev["li"]]
        o = ev["o"]
        moved = bool(o["black"] or o["unroutable"] or o["agg"] or any(any(v) for v in o["rt"]))
        rej = o["invalid"] + o["ooo"]
        forwarded = moved and rej == 0
        k = ln["line"]["key"]
        cls = "nf=%d key=%s%s;%s val=%s ts=%s" % (ln["line"]["nf"], "." if k["lead"] else "", ".".join(k["nodes"]), k["app"],
                                                ln["line"]["val"], ln["line"]["ts"])
        lv = "legacy=%s m20=%s validate_order=%s" % (case["lvl"] or "(default)", case["lvm"] or "(default)", case["ord"] or "(absent)")
        if ln.get("rel"):
            cls += " [same key as line %d, %s timestamp]" % (ln["ref"], ln["rel"])
        if o["in"] != 1:
            sig = "c02 inbound-counter"
            what = "the inbound counter moved by %d for one line (%s, %s)" % (o["in"], cls, lv)
        elif not moved and rej == 0:
            sig = "c02 line-vanished table=%s" % case["fam"]
            what = "a line (%s, %s) was neither forwarded nor counted invalid: %s" % (cls, lv, json.dumps(o))
        elif moved and rej != 0:
            sig = "c02 rejected-line-accounting table=%s" % case["fam"]
            what = "a line counted invalid/out-of-order (%s, %s) also moved other counters/hand-overs %s" % (cls, lv, json.dumps(o))
        elif o["ooo"] != 0 and o["invalid"] != 0:
            sig = "c02 rejected-line-counted-twice"
            what = "a rejected line (%s, %s) moved both the invalid and the out_of_order counter: %s" % (cls, lv, json.dumps(o))
        elif o["ooo"] != 0 and ln["allowed"] == [False]:
            sig = "c02 invalid-line-counted-out-of-order validate_order=%s" % (case["ord"] or "absent")
            what = ("a line that fails validation (%s, %s) moved the out_of_order counter by %d and the invalid counter by %d: "
                    "every rejected line increments the invalid counter exactly once" % (cls, lv, o["ooo"], o["invalid"]))
        elif o["ooo"] != 0 and case["ord"] != "true":
            sig = "c02 order-check-while-disabled validate_order=%s" % (case["ord"] or "absent")
            what = "a line (%s, %s) was rejected as out-of-order although order validation is not enabled" % (cls, lv)
        elif o["ooo"] != 0 and not ln.get("rel"):
            sig = "c02 order-check-rejected-fresh-name"
            what = "a valid point (%s, %s) with a positive timestamp and a name never seen before was rejected as out-of-order" % (cls, lv)
        elif case["ord"] == "true" and ln.get("rel") and True in ln["allowed"] and (forwarded or o["ooo"] != 0):
            sig = "c02 repeated-name-point-handling rel=%s %s" % (ln["rel"], "forwarded" if forwarded else "rejected")
            what = ("a valid point (%s, %s, timestamp %s) was not handled as the order register of the specification demands (not newer "
                    "than what was accepted for its name: counted out_of_order once, reported as bad metric under its name with its "
                    "text, forwarded nowhere, not counted invalid; newer: forwarded): %s bad=%s" % (
                        cls, lv, ev["tsn"], json.dumps(o), ev["bad"]))
        elif forwarded not in ln["allowed"]:
            sig = "c02 %s %s %s" % ("forwarded-invalid" if forwarded else "rejected-valid", lv, cls)
            what = "line class %s at %s was %s; allowed verdicts %s" % (cls, lv, "forwarded" if forwarded else "rejected", ln["allowed"])
        elif forwarded:
            sig = "c02 forwarded-line-routing table=%s" % case["fam"]
            what = "an accepted line (%s, %s) was not handled as table shape %s demands: %s bad=%s" % (cls, lv, case["fam"], json.dumps(o), ev["bad"])
        elif o["invalid"] != 1:
            sig = "c02 invalid-counter"
            what = "a rejected line (%s, %s) moved the invalid counter by %d" % (cls, lv, o["invalid"])
        else:
            sig = "c02 bad-metrics-record %s" % ("nf3" if ln["line"]["nf"] == 3 else "unparsable")
            what = "rejected line (%s, %s): bad-metrics records %s do not show it under its name with its text and a true reason" % (
                cls, lv, json.dumps(ev["bad"]))
        ctx.violation(sig, what, dict(table=case["t"], config_levels=[case["lvl"], case["lvm"]], validate_order=case["ord"], line=ln, observed=ev))

    nacc, nrej = displib.validate(ctx, events, "c02", on_reject)
    if not ctx.violations:
        displib.selftest_binding(ctx, events, "c02")

    nd, rejected, forwarded = 0, 0, 0
    ooo_points, repeats_fwd, inv_by_ord = 0, 0, {x: 0 for x in ORD}
    distinct = set()
    for e in events:
        if e["ev"] != "d":
            continue
        nd += 1
        case = byid[e["id"]]
        ln = case["lines"][e["li"]]
        if e["o"]["ooo"] == 1 and e["o"]["invalid"] == 0:
            ooo_points += 1
        elif ln.get("rel") and e["o"]["invalid"] == 0:
            repeats_fwd += 1
        if e["o"]["invalid"] == 1 and e["o"]["ooo"] == 0:
            inv_by_ord[case["ord"]] += 1
        if ln["allowed"] == [False]:
            rejected += 1
        elif ln["allowed"] == [True]:
            forwarded += 1
        if ln["allowed"] != [True]:
            distinct.add((json.dumps(ln["line"], sort_keys=True), eff(case["lvl"]), eff(case["lvm"])))
    if not crashed and not ctx.violations and (rejected == 0 or forwarded == 0):
        raise Machinery("vacuous coverage: %d must-reject / %d must-forward lines" % (rejected, forwarded))
    if not crashed and not ctx.violations and (ooo_points == 0 or repeats_fwd == 0 or min(inv_by_ord.values()) == 0):
        raise Machinery("vacuous coverage of the order setting: %d out-of-order points, %d repeated names forwarded, invalid lines per "
                        "validate_order setting %s" % (ooo_points, repeats_fwd, inv_by_ord))
    viap = [e for e in events if e["ev"] == "d" and e.get("via") == "plain"]
    verr = [e for e in events if e["ev"] == "d" and str(e.get("via", "")).startswith("plain-error")]
    if verr and not ctx.violations:
        # the plain handler refused a stream holding one line within its documented limit
        e = verr[0]
        ctx.violation("c02 plain-input-error len=%d" % e["len"], "input.Plain.Handle returned %r for a stream holding one line of %d bytes" % (e["via"], e["len"]),
                      dict(observed=dict(e, text=e["text"][:200])))
    nbig = sum(1 for e in viap if e["len"] > 4096)
    if not crashed and not ctx.violations and (len(viap) < 200 or nbig < 50):
        raise Machinery("vacuous coverage of the plain-text input path: %d lines through input.Plain, %d longer than 4096 bytes" % (len(viap), nbig))
    cov = ctx.cov
    cov["lines_received_through_the_plain_input"] = dict(lines=len(viap), longer_than_4096_bytes=nbig,
                                                         longest=max([e["len"] for e in viap] or [0]))
    cov["evaluations"] = nd
    cov["dispatches_accepted_by_tlc"] = nacc
    cov["distinct_nontrivial"] = len(distinct)
    cov["line_classes"] = len(lines)
    cov["lines_that_must_be_rejected"] = rejected
    cov["lines_that_must_be_forwarded"] = forwarded
    cov["out_of_order_points_accepted_by_tlc"] = ooo_points
    cov["repeated_name_points_not_rejected"] = repeats_fwd
    cov["invalid_counted_lines_by_validate_order_as_written"] = {k or "(absent)": v for k, v in inv_by_ord.items()}
    cov["rule"] = ("line classes = TLC enumeration (ValidateGen) of keys [leading dot, <= %d nodes of 10 kinds, 13 tag-appendix kinds] x "
                   "value/timestamp classes x field counts 0..5, each with the verdict set of Validate.tla per level pair; every class "
                   "concretised to bytes by construction (seeded) and dispatched into a real table created from a configuration text "
                   "with validation_level_legacy in {none, medium, strict, absent} x validation_level_m20 in {none, medium, absent} x "
                   "validate_order in {absent, false, true}; every generated key is unique in the process, and some accepted lines are "
                   "followed by points with the very same key and an older/equal/newer timestamp (fate decided by the max-register of "
                   "DispatchTrace.tla: out-of-order only when validate_order = true); "
                   "over table shapes {aggregation+route, blacklist-all, no route, drop-raw, real routes, rejecting route}; distinct "
                   "non-trivial = distinct (line class, effective level pair) whose verdict set is not {accept}" % ctx.pick(2, 3))
    for c in cases:
        for l in c["lines"]:
            if l["allowed"] == [False] and l["line"]["nf"] == 3 and len(cov["samples"]) < 2 and (c["lvl"], len(cov["samples"])) in (("strict", 0), ("medium", 1)):
                ctx.sample(dict(levels_as_written=[c["lvl"], c["lvm"]], line_class=l["line"], allowed_verdicts_by_tlc=l["allowed"]))
    if not cov["samples"]:
        ctx.sample(dict(line_class=lines[0]))
    ctx.assumptions += ["the validator is the pinned github.com/metrics20/go-metrics20; where docs/validation.md and the validator read "
                        "differently (version detection by first '='/'_is_'/'.', '=' inside a tag value, m20 keys with exactly unit+mtype, "
                        "float timestamps) both verdicts are allowed",
                        "values/timestamps that Go's ParseFloat accepts beyond decimal int/float notation (inf, nan, hex floats) are not generated",
                        "bad-metrics records are added asynchronously: the driver polls Bad().Get for up to 10 s per rejected line (0.5 s once three records have failed to appear)",
                        "order validation is a configuration dimension of the gate (sequential use of the register only; its "
                        "atomicity under concurrent connections is C19); generated timestamps are positive whole or fractional seconds "
                        "below 2^31",
                        "pickle/UDP/AMQP inputs and their own invalid counting are C12-C14"]
    cov["trusted_base"] = ["TLC", "harness/disp driver (builds bytes from the abstract class, records only)",
                           "byte templates of node/appendix/number classes in the driver"]
