"""XADMIN -- the two admin front ends through which an operator reaches the table (extension check).

telnet/telnet.go (ListenAndServe, handleApiRequest: banner, one conn.Read into 1024 bytes = one command, TrimSpace, Split,
handler by the first registered prefix), ui/telnet/telnet.go (help, view, the catch-all, imperatives.Apply for add/del/mod),
ui/web/web.go (list / get / delete / add of routes, destinations, blacklist entries, rewriters, aggregators).

1. TLC model-checks spec/AdminConn.tla (+ AdminConnOps.tla) over all segmentations of small command scripts and over
   sequences of HTTP requests: the guarantees G_* / H_* hold; every named non-guarantee W_* is reachable (its negation
   is run as an invariant and must be violated); every named deviation (constant Mutant) is rejected by a guarantee.
2. TLC generates the cases (AdminConnGen: whole commands, two commands cut at every byte, lengths around the buffer
   size, line ends, prefixes, HTTP index and key classes, mixed); this module samples them (seeded), replaces the
   fixed-width place holders (unique tag per case, two refusing loopback ports) and numbers them.
3. harness/admx runs the real ui/telnet.Start and ui/web.Start on loopback ports against one real table.Table and
   records what was sent, what the server logged for every Read, what came back between the banners, the HTTP
   statuses and Table.Snapshot() at every quiescent moment.  It judges nothing.
4. spec/AdminConnTrace.tla (TLC) decides every event by what the reads actually were; a rejected case is run once more
   in a fresh process before it is reported.
"""
import json, os, random, re
from vlib.core import Machinery, REPO

LEVEL = "model_checking"

CAP = 1024      # the buffer of handleApiRequest as specified (a change of the code is to be seen, not followed)

# ------------------------------------------------------------------ facts read from the source (never verdicts)
def source_facts(ctx):
    tn = open(os.path.join(REPO, "telnet", "telnet.go")).read()
    body = tn[tn.index("func handleApiRequest"):]
    m = re.search(r'conn\.Write\(\[\]byte\("((?:[^"\\]|\\.)*)"\)\)', body)
    if not m:
        raise Machinery("cannot find the banner of handleApiRequest in telnet/telnet.go")
    banner = json.loads('"' + m.group(1) + '"')
    m = re.search(r"buf := make\(\[\]byte, (\d+)\)", tn)
    ctx.cov["read_buffer_in_source"] = int(m.group(1)) if m else None
    imp = open(os.path.join(REPO, "imperatives", "imperatives.go")).read()
    errs = {}
    for name, txt in re.findall(r'var (err\w+) = errors\.New\("((?:[^"\\]|\\.)*)"\)', imp):
        errs[json.loads('"' + txt + '"')] = name
    # the token table of imperatives against AdminConnOps.Lits (a drift means the model of the tokenizer is out of date)
    blk = imp[imp.index("var tokens = []toki.Def{"):]
    blk = blk[:blk.index("\n}")]
    src = [(t, json.loads('"' + p + '"')) for t, p in re.findall(r'\{Token: (\w+), Pattern: "((?:[^"\\]|\\.)*)"\}', blk)]
    spec = open(os.path.join(os.path.dirname(os.path.dirname(os.path.abspath(__file__))), "spec", "AdminConnOps.tla")).read()
    lits = spec[spec.index("Lits == <<"):spec.index("\\* the literal patterns by their first character")]
    mine = re.findall(r'<<"(\w+)", "([^"]*)">>', lits)
    want = [(t, p) for t, p in src if t not in ("str", "num", "word")]
    tail = [t for t, _ in src if t in ("str", "num", "word")]
    drift = (want != mine or tail != ["str", "num", "word"] or [t for t, _ in src][-2:] != ["num", "word"]
             or dict(src).get("num") != "[0-9]+( |$)" or dict(src).get("word") != "[^ ]+")
    if drift:
        ctx.note("model-drift: imperatives.tokens differs from AdminConnOps.Lits (the verdicts on add/del/mod commands "
                 "rest on an outdated tokenizer model)")
    ctx.cov["token_table_matches_source"] = not drift
    return banner, errs


# ------------------------------------------------------------------ 1. model checking
def C(**kw):
    c = dict(Mutant="none", Cap=64, ScriptSet="none", Lockstep=False, MaxReads=99, HttpSet="none", MaxHttp=0)
    c.update(kw)
    return c


LOCK = dict(Cap=64, ScriptSet="lock", Lockstep=True, MaxReads=10)
# deviation -> (invariants that must reject it, constants)
DEVIATIONS = {
    "last_prefix": ("G_Doc", LOCK),                 # the mux loop does not stop at the first match
    "exact_word": ("G_Doc", LOCK),                  # handler by equality of the first word instead of prefix of the text
    "apply_twice": ("G_Doc", LOCK),                 # an accepted command is applied twice
    "no_error_reply": ("G_OneReply", LOCK),         # a rejected command gets no error line
    "ok_on_error": ("G_Whole", LOCK),               # a rejected command is answered ok
    "no_trim": ("G_Doc", LOCK),                     # the newline stays in the last word
    "split_fields": ("G_Doc", LOCK),                # strings.Fields + Join: the double space of addRoute is lost
    "no_banner": ("G_Banner", LOCK),                # banner only at connect
    "cap_off_by_one": ("G_Stream", dict(Cap=12, ScriptSet="long", MaxReads=4)),
    "key_prefix_match": ("H_Key", dict(HttpSet="key", MaxHttp=2)),
    "del_off_by_one": ("H_DelIndex", dict(HttpSet="idx", MaxHttp=2)),
    "neg_wraps": ("H_DelIndex", dict(HttpSet="idx", MaxHttp=2)),
    "oob_clamps": ("H_DelIndex", dict(HttpSet="idx", MaxHttp=2)),
    "oob_ok": ("H_DelIndex", dict(HttpSet="idx", MaxHttp=2)),
    "unknown_key_404": ("H_Key", dict(HttpSet="key", MaxHttp=2)),
}
QUICK_DEVS = ["last_prefix", "apply_twice", "no_error_reply", "split_fields", "cap_off_by_one", "del_off_by_one", "neg_wraps"]
FREE = dict(MaxReads=3)
WITNESSES = {      # non-guarantee -> constants of a configuration in which TLC must reach it
    "Merged": dict(ScriptSet="merge", **FREE), "MergedSilentOk": dict(ScriptSet="merge", **FREE),
    "MergedOneReply": dict(ScriptSet="merge", **FREE),
    "Split": dict(ScriptSet="long", **FREE), "FragmentApplied": dict(ScriptSet="long", **FREE),
    "Truncated": dict(ScriptSet="long", Cap=12, **FREE),
    "EmptyToken": dict(ScriptSet="space", **FREE), "SingleSpaceRefused": dict(ScriptSet="space", **FREE),
    "DoubleSpaceRefused": dict(ScriptSet="space", **FREE),
    "PrefixHandler": LOCK, "ExtraIgnored": LOCK,
    "NonNumericDeletesFirst": dict(HttpSet="idx", MaxHttp=1), "NegativeNoResponse": dict(HttpSet="idx", MaxHttp=1),
    "NotFoundNoResponse": dict(HttpSet="idx", MaxHttp=1),
    "UnknownKeyOk": dict(HttpSet="key", MaxHttp=1), "PostRouteRefused": dict(HttpSet="key", MaxHttp=1),
}
QUICK_WITS = ["MergedSilentOk", "FragmentApplied", "Truncated", "EmptyToken", "NonNumericDeletesFirst", "NotFoundNoResponse"]


SMALL_JVM = "-XX:TieredStopAtLevel=1 -XX:ParallelGCThreads=2 -XX:CICompilerCount=1"


JTMP = [None]


def small_jvm(on):
    """the many TLC runs of a few hundred states spend their time in JVM start-up and JIT compilation: C1 only, two GC
    threads (HotSpot reads _JAVA_OPTIONS; only the TLC processes started by this check see it).  In every case TLC
    unpacks its standard modules into a directory of this run instead of /tmp (shared, and swept by others)."""
    opts = "-Djava.io.tmpdir=%s" % JTMP[0] if JTMP[0] else ""
    if on:
        opts += " " + SMALL_JVM
    os.environ["_JAVA_OPTIONS"] = opts.strip()


def model_check(ctx):
    q = ctx.quick()
    small_jvm(q)
    if os.environ.get("VERIF_DEV_SKIP_MC"):
        ctx.note("model checking skipped (VERIF_DEV_SKIP_MC)")
        return
    from concurrent.futures import ThreadPoolExecutor
    ctx.specdir()
    # (a) the guarantees hold
    if q:
        good = [("mc_lock", C(HttpSet="few", MaxHttp=1, **LOCK)),
                ("mc_pair", C(Cap=8, ScriptSet="pair", MaxReads=3)),
                ("mc_merge", C(Cap=20, ScriptSet="merge", MaxReads=2)),
                ("mc_long", C(Cap=12, ScriptSet="long", MaxReads=2)),
                ("mc_space", C(Cap=16, ScriptSet="space", MaxReads=2)),
                ("mc_http_idx", C(HttpSet="idx", MaxHttp=2)),
                ("mc_http_key", C(HttpSet="key", MaxHttp=2))]
    else:
        good = [("mc_lock", C(HttpSet="few", MaxHttp=2, **LOCK)),
                ("mc_pair", C(Cap=8, ScriptSet="pair")),
                ("mc_pair_http", C(Cap=8, ScriptSet="pair", MaxReads=4, HttpSet="few", MaxHttp=2)),
                ("mc_merge", C(Cap=20, ScriptSet="merge", MaxReads=5)),
                ("mc_merge64", C(Cap=64, ScriptSet="merge", MaxReads=4)),
                ("mc_long", C(Cap=12, ScriptSet="long", MaxReads=5)),
                ("mc_long20", C(Cap=20, ScriptSet="long", MaxReads=4)),
                ("mc_space", C(Cap=16, ScriptSet="space", MaxReads=5)),
                ("mc_http_idx", C(HttpSet="idx", MaxHttp=3)),
                ("mc_http_key", C(HttpSet="key", MaxHttp=3))]

    def run_good(job):
        tag, consts = job
        return ctx.tlc("AdminConn", "AdminConn_mc.cfg", workers=1 if q else 2, timeout=ctx.pick(600, 3000), consts=consts, tag=tag, heap="3g")
    with ThreadPoolExecutor(max_workers=4 if q else 2) as ex:
        list(ex.map(run_good, good))

    small_jvm(True)
    # (b) the non-guarantees are reachable, (c) the deviations are rejected, (d) the ideal index rule is not met
    jobs = []
    for w in (QUICK_WITS if q else sorted(WITNESSES)):
        jobs.append(("wit_" + w, ["NotW_" + w], C(**WITNESSES[w])))
    for d in (QUICK_DEVS if q else sorted(DEVIATIONS)):
        inv, over = DEVIATIONS[d]
        jobs.append(("dev_" + d, inv.split(), C(Mutant=d, **over)))
    jobs.append(("ideal_index", ["Ideal_IndexRefused"], C(HttpSet="idx", MaxHttp=1)))

    def one(job):
        tag, invs, consts = job
        r = ctx.tlc("AdminConn", "AdminConn_wit.cfg", workers=1, timeout=900, consts=consts, invariants=invs, expect_ok=False,
                    count=False, tag=tag, heap="2g")
        return tag, (r["violated"] if not r["ok"] and not r["timeout"] else None), r["log"], invs
    with ThreadPoolExecutor(max_workers=4) as ex:
        res = list(ex.map(one, jobs))
    for tag, what, logf, invs in res:
        if what not in invs:
            kind = {"wit": "non-guarantee not reachable", "dev": "deviation not rejected (vacuous guarantee)",
                    "ide": "the model meets the ideal index rule: it no longer describes the code"}[tag[:3]]
            raise Machinery("%s: %s (TLC: %s); log %s" % (tag, kind, what, logf))
    ctx.cov["spec_deviations_rejected"] = {t[4:]: w for t, w, _, _ in res if t.startswith("dev_")}
    ctx.cov["non_guarantees_reachable"] = [t[4:] for t, _, _, _ in res if t.startswith("wit_")]
    ctx.cov["ideal_index_rule_violated_by_the_model_of_the_code"] = True


# ------------------------------------------------------------------ 2. cases
def gen_cases(ctx, rng):
    r = ctx.tlc("AdminConnGen", "AdminConnGen.cfg", workers=1, timeout=900, tag="gen", count=False, heap="3g",
                consts=dict(Mutant="none", Cap=CAP, Fam="all"))
    cs = [json.loads(x) for x in ctx.tlc_printed(r, "@@C")]
    if len(cs) < 900:
        raise Machinery("AdminConnGen printed %d cases" % len(cs))
    fams = {}
    for c in cs:
        fams.setdefault(c["fam"], []).append(c)
    for f in fams.values():
        f.sort(key=lambda c: json.dumps(c, sort_keys=True))
    quota = dict(whole=(62, 999), cut1=(9, 99), cut2=(60, 9999), cut3=(16, 9999), long=(19, 99), ends=(24, 999),
                 hidx=(50, 999), hkey=(14, 999), hpost=(11, 99), mixed=(3, 99))
    pick = []
    for f in sorted(fams):
        n = quota[f][0 if ctx.quick() else 1]
        lst = fams[f] if n >= len(fams[f]) else rng.sample(fams[f], n)
        pick += lst
    rng.shuffle(pick)
    return pick, {f: len(v) for f, v in fams.items()}


B36 = "0123456789abcdefghijklmnopqrstuvwxyz"


def concretise(ctx, cases):
    out = []
    for i, c in enumerate(cases):
        cid = i + 1
        n, tag = (ctx.seed % 36) * 36 ** 3 + cid, ""
        for _ in range(4):
            tag = B36[n % 36] + tag
            n //= 36
        tag = "u" + tag + "v"                              # six characters, no keyword of the command language inside
        p1, p2 = "%05d" % (20000 + (cid * 2) % 40000), "%05d" % (20001 + (cid * 2) % 40000)

        def sub(s):
            return s.replace("UUUUUU", tag).replace("PPPPP", p1).replace("QQQQQ", p2) if isinstance(s, str) else s
        steps = [{k: sub(v) for k, v in st.items()} for st in c["steps"]]
        # a cut may fall inside a place holder: substitute in the whole stream, then cut at the same offsets
        ws = [st for st in c["steps"] if st["op"] == "w"]
        whole, pos = sub("".join(st["data"] for st in ws)), 0
        for st, orig in zip([x for x in steps if x["op"] == "w"], ws):
            st["data"] = whole[pos:pos + len(orig["data"])]
            pos += len(orig["data"])
        out.append(dict(id=cid, fam=c["fam"], pre=[sub(p) for p in c["pre"]], steps=steps))
    return out


# ------------------------------------------------------------------ 3./4. the real code, TLC decides
ERR_TAGS = {"errFmtAddBlack": "fmtAddBlack", "errFmtAddRewriter": "fmtAddRewriter", "errFmtAddRoute": "fmtAddRoute",
            "errFmtModDest": "fmtModDest"}
ERR_RE = [(r"extraneous arguments\n", "E:extraneous"), (r"need route key\n", "E:needRouteKey"),
          (r"modRoute needs at least 1 option\n", "E:modRouteNeedsOpt"), (r"Invalid route for .*\n", "E:invalidRoute"),
          (r"bad (prefix|notPrefix|sub|notSub|regex|notRegex) option\n", "E:badOption"),
          (r"unrecognized option '.*'\n", "E:unrecognizedOption"), (r"addr not set for endpoint\n", "E:addrNotSet"),
          (r"must get at least 1 destination for route '.*'\n", "E:needDest"),
          (r"sorry, addDest is not implemented yet\n", "E:addDestNotImplemented"),
          (r'unrecognized command ".*"\n', "E:unrecognizedCommand"), (r"unrecognized command\n", "unrec")]


def classify_reply(raw, errs):
    if raw == "ok\n":
        return "ok"
    if raw.startswith("\ncommands:\n") and "delRoute <routeKey>" in raw:
        return "help"
    if raw.startswith("unknown command\n\ncommands:\n") and "delRoute <routeKey>" in raw:
        return "uhelp"
    if raw.endswith("\n--\n") and raw.startswith("\n## Rewriters:\n") and "\n## Routes:\n" in raw:
        return "view"
    if raw.endswith("\n") and raw[:-1] in errs and errs[raw[:-1]] in ERR_TAGS:
        return "E:" + ERR_TAGS[errs[raw[:-1]]]
    for rx, tag in ERR_RE:
        if re.fullmatch(rx, raw, re.S):
            return tag
    return "other"


def join(recs, errs):
    """driver log -> one block of trace events per case (replies classified; bookkeeping events dropped)"""
    blocks, cur, info = [], None, {}
    for r in recs:
        e = r["ev"]
        if e in ("begin", "end"):
            continue
        if e == "done":
            info["other_log_lines"] = r.get("other_log_lines")
            break
        if e == "abort":
            info["aborted_at"] = r["id"]
            continue
        if e == "fatal":
            raise Machinery("driver: %s" % r["why"])
        if e == "skip":
            raise Machinery("driver could not set a case up: %s" % r["why"])
        if e == "hist":
            cur = [dict(ev="hist", id=r["id"], T=r["T"])]
            blocks.append(cur)
            continue
        if e == "reply":
            cur.append(dict(ev="reply", cls=classify_reply(r["raw"], errs), raw=r["raw"][:400]))
        elif e == "http":
            x = dict(ev="http", q=r["q"], st=r["st"], path=r["path"], err=r.get("err", ""), body=r.get("body", "")[:200])
            if "keys" in r:
                x["keys"] = r["keys"]
            if "keys_err" in r:
                raise Machinery("GET /routes: body is not the JSON list of routes: %s" % r["keys_err"])
            cur.append(x)
        else:
            cur.append(r)
    return blocks, info


def validate(ctx, blocks, tag="tr", own_dir=None, consts=None):
    """returns (number accepted, list of (block, idx) rejected)"""
    blocks = list(blocks)
    rej = []
    for rnd in range(100):
        flat = [r for b in blocks for r in b]
        if not flat:
            break
        f = ctx.write_ndjson("xa_trace_%s.ndjson" % tag, flat)
        ok, matched, res = ctx.validate_traces("AdminConnTrace", "AdminConnTrace.cfg", f, len(flat), len(blocks),
                                               consts=consts or dict(Mutant="none", Cap=CAP),
                                               tag="%s%d" % (tag, rnd), timeout=1800, own_dir=own_dir, heap="3g")
        if ok:
            break
        if matched is None:
            raise Machinery("trace validation gave no verdict; log %s\n%s" % (res["log"], res["text"][-2000:]))
        pos = 0
        for bi, b in enumerate(blocks):
            if matched < pos + len(b):
                rej.append((b, matched - pos))
                del blocks[bi]
                break
            pos += len(b)
        else:
            raise Machinery("matched prefix beyond the trace")
    else:
        raise Machinery("more than 100 rejected cases in one chunk")
    return len(blocks), rej


def validate_all(ctx, blocks, chunks, tag="tr"):
    from concurrent.futures import ThreadPoolExecutor
    parts = [p for p in (blocks[i::chunks] for i in range(chunks)) if p]
    with ThreadPoolExecutor(max_workers=len(parts)) as ex:
        res = list(ex.map(lambda ip: validate(ctx, ip[1], tag="%s%d_" % (tag, ip[0]), own_dir="spec_%s%d" % (tag, ip[0])), enumerate(parts)))
    return sum(n for n, _ in res), [x for _, rj in res for x in rj]


ENV_SIGS = ("read-is-not-the-whole-write", "admin-connection-stalls")


def classify(block, idx):
    r = block[idx]
    e = r["ev"]
    prev = next((x for x in reversed(block[:idx]) if x["ev"] == "read"), None)
    if e == "stall":
        return "admin-connection-stalls at=%s" % re.sub(r"\d+", "N", r["at"])
    if e == "read":
        sends = [x for x in block[:idx] if x["ev"] == "send"]
        if sends and sends[-1]["solo"] and len(sends[-1]["data"]) <= CAP and r["text"] != sends[-1]["data"].strip():
            return "read-is-not-the-whole-write"
        return "read-is-not-a-piece-of-the-stream-of-at-most-%d-bytes" % CAP
    if e == "reply":
        return "wrong-reply got=%s text=%s" % (r["cls"], sig_text(prev["text"]) if prev else "-")
    if e == "banner":
        if block[idx - 1]["ev"] == "read":
            return "no-reply-before-the-banner text=%s" % sig_text(prev["text"])
        return "banner-out-of-place text=%s" % (sig_text(prev["text"]) if prev else "-")
    if e == "snap":
        last = next((x for x in reversed(block[:idx]) if x["ev"] in ("read", "http")), None)
        if last and last["ev"] == "http":
            return "table-after-request %s %s idx=%s st=%s" % (last["q"]["m"], last["q"]["kind"], idx_class(last["q"]["idx"]), last["st"])
        return "table-after-command text=%s" % (sig_text(last["text"]) if last else "-")
    if e == "http":
        return "http-status %s %s idx=%s key=%s st=%s" % (r["q"]["m"], r["q"]["kind"], idx_class(r["q"]["idx"]),
                                                         "-" if not r["q"]["key"] else "given", r["st"])
    if e == "close":
        return "sent-text-never-read"
    return "event-rejected ev=%s" % e


def sig_text(t):
    t = re.sub(r"u[0-9a-z]{4}v", "U", t)
    t = re.sub(r"127\.0\.0\.1:\d+", "H", t)
    t = re.sub(r"x{20,}|y{20,}| {20,}", lambda m: m.group(0)[0] + "*", t)
    return json.dumps(t[:60])


def idx_class(s):
    if s == "":
        return "empty"
    if re.fullmatch(r"[+-]?\d+", s):
        v = int(s)
        return "negative" if s.startswith("-") and v != 0 else ("huge" if v > 10 ** 9 else "number")
    return "non-numeric"


def run_driver(ctx, cases, banner, tag):
    sf = ctx.write_ndjson("xa_cases_%s.ndjson" % tag, cases)
    rf = os.path.join(ctx.out, "xa_result_%s.ndjson" % tag)
    res = ctx.go_test("admx", run="^TestAdmin$", timeout=ctx.pick(600, 2400), expect_ok=False,
                      env=dict(VERIF_XA_CASES=sf, VERIF_XA_RESULT=rf, VERIF_XA_BANNER=banner))
    recs = ctx.read_ndjson(rf) if os.path.exists(rf) else []
    if res["rc"] != 0:
        if ("panic:" in res["text"] or "fatal error:" in res["text"]) and recs:
            last = next((r for r in reversed(recs) if r["ev"] == "begin"), None)
            return recs, dict(panic=True, case=last["id"] if last else None, tail=res["text"][-3000:])
        raise Machinery("admx driver failed (rc=%s); log %s\n%s" % (res["rc"], res["log"], res["text"][-2000:]))
    if not recs or recs[-1]["ev"] != "done":
        raise Machinery("driver result is incomplete; log %s" % res["log"])
    return recs, None


def run(ctx):
    q = ctx.quick()
    rng = random.Random(ctx.seed)
    banner, errs = source_facts(ctx)
    JTMP[0] = os.path.join(ctx.out, "jtmp")
    os.makedirs(JTMP[0], exist_ok=True)
    model_check(ctx)
    small_jvm(q)
    picked, fam_sizes = gen_cases(ctx, rng)
    cases = concretise(ctx, picked)
    byid = {c["id"]: c for c in cases}
    recs, crash = run_driver(ctx, cases, banner, "main")
    if crash:
        c = byid.get(crash["case"])
        ctx.violation("admin-front-end-panics fam=%s" % (c["fam"] if c else "?"), "the relay process died while case %s ran: %s" % (
            crash["case"], json.dumps(c)[:600] if c else ""), dict(case=c, tail=crash["tail"]))
        ctx.sample(dict(crash=crash["tail"][-400:]))
        return
    blocks, info = join(recs, errs)
    if any(r["ev"] == "stall" for b in blocks for r in b) and not any(r["ev"] == "read" for b in blocks for r in b):
        raise Machinery("dead driver: no \"received command: '...'\" line of telnet/telnet.go was seen although commands were sent; "
                        "the reads of the server cannot be observed")
    if len(blocks) != len(cases) and "aborted_at" not in info:
        raise Machinery("driver recorded %d cases of %d" % (len(blocks), len(cases)))
    nacc, rej = validate_all(ctx, blocks, ctx.pick(4, 4))
    # Two kinds of rejection rest on an assumption about the environment (a small write to an idle loopback connection
    # arrives in one piece; 20 s are enough for an answer): those cases are run once more in a fresh process and
    # reported only if they are rejected again in the same way.  Every other rejection is a statement about what the
    # server made of the reads it logged itself and needs no second run.
    confirmed, unsure = [], []
    for b, i in rej:
        s = classify(b, i)
        (unsure if s.startswith(ENV_SIGS) else confirmed).append((b, i, s))
    if unsure:
        again = [byid[b[0]["id"]] for b, _, _ in unsure]
        recs2, crash2 = run_driver(ctx, again, banner, "confirm")
        if crash2:
            raise Machinery("the driver died while the rejected cases were run again; %s" % crash2["tail"][-1500:])
        blocks2, _ = join(recs2, errs)
        _, rej2 = validate(ctx, blocks2, tag="confirm", own_dir="spec_confirm")
        sig2 = {b[0]["id"]: classify(b, i) for b, i in rej2}
        for b, i, s in unsure:
            if sig2.get(b[0]["id"]) == s:
                confirmed.append((b, i, s))
            else:
                raise Machinery("case %d was rejected (%s) but not when run again (%s): not reproducible, no verdict; events %s" % (
                    b[0]["id"], s, sig2.get(b[0]["id"]), json.dumps(b[max(0, i - 3):i + 1])[:1500]))
    for b, i, s in confirmed:
        c = byid[b[0]["id"]]
        ctx.violation(s, "case %d (%s): event %d %s is not what AdminConnTrace allows after %s" % (
            c["id"], c["fam"], i, json.dumps(b[i])[:500], json.dumps([x for x in b[max(1, i - 4):i]])[:900]),
            dict(case=c, events=b[1:i + 3]))
    good = [b for b in blocks if not any(b is rb for rb, _ in rej)]
    small_jvm(True)
    selftest(ctx, good, strict=not ctx.violations)
    coverage(ctx, cases, blocks, nacc, fam_sizes, info)


# ------------------------------------------------------------------ binding self-test
def selftest(ctx, good, strict=True):
    """corrupted copies of accepted cases must be rejected by TLC, not before the corrupted line"""
    from concurrent.futures import ThreadPoolExecutor
    import copy
    jobs = []

    def first(b, p, start=0):
        return next((i for i in range(start, len(b)) if p(b[i])), None)

    def probe(name, pred, mut, consts=None):
        for b in good:
            i = first(b, pred)
            if i is not None:
                b2 = copy.deepcopy(b)
                lo = mut(b2, i)
                jobs.append((name, b2, i if lo is None else lo, consts))
                return
    probe("read_text", lambda r: r["ev"] == "read" and r["text"].startswith("addBlack prefix"),
          lambda b, i: b[i].update(text=b[i]["text"].replace("addBlack prefix", "addBlack sub")))
    probe("reply_class", lambda r: r["ev"] == "reply" and r["cls"] == "ok", lambda b, i: b[i].update(cls="E:fmtAddBlack"))
    probe("reply_dropped", lambda r: r["ev"] == "reply" and r["cls"].startswith("E:"), lambda b, i: b.pop(i) and None)
    probe("banner_twice", lambda r: r["ev"] == "banner", lambda b, i: b.insert(i, dict(b[i])) or i + 1)

    def snap_mut(b, i):
        T = b[i]["T"]
        for k in ("bl", "rw", "rt", "agg"):
            if T[k]:
                T[k] = T[k][1:]
                return
    probe("snapshot_entry_missing", lambda r: r["ev"] == "snap" and any(r["T"][k] for k in ("bl", "rw", "rt", "agg")), snap_mut)
    probe("http_status", lambda r: r["ev"] == "http" and r["q"]["m"] == "DELETE" and r["st"] == 200, lambda b, i: b[i].update(st=0))
    probe("http_nonnumeric_refused", lambda r: r["ev"] == "http" and r["q"]["m"] == "DELETE" and r["q"]["idx"] == "x" and r["st"] == 200,
          lambda b, i: b[i].update(st=404))
    probe("sent_byte_changed", lambda r: r["ev"] == "send" and r["data"].startswith("delRoute k"),
          lambda b, i: b[i].update(data=b[i]["data"].replace("delRoute k", "delRoute j")) or i + 1)

    def long_mut(b, i):      # a read longer than the buffer
        j = next(k for k in range(i + 1, len(b)) if b[k]["ev"] == "read")
        b[j]["text"] = b[i]["data"].strip()
        return j
    probe("read_longer_than_buffer", lambda r: r["ev"] == "send" and r["solo"] and len(r["data"].strip()) > CAP + 1 and "\n" not in r["data"].strip(), long_mut)
    # the unchanged record against the model of the INTENDED behaviour: it cannot explain what the code did
    keep = lambda b, i: None
    probe("model_notfound_answered", lambda r: r["ev"] == "http" and r["st"] == 0 and idx_class(r["q"]["idx"]) in ("number", "huge", "empty"),
          keep, dict(Mutant="notfound_answered", Cap=CAP))
    probe("model_idx_strict", lambda r: r["ev"] == "http" and r["q"]["m"] == "DELETE" and r["q"]["idx"] == "x" and r["st"] == 200,
          keep, dict(Mutant="idx_strict", Cap=CAP))
    probe("model_split_fields", lambda r: r["ev"] == "read" and r["text"].startswith("addRoute sendAllMatch") and "  " in r["text"],
          lambda b, i: i + 1, dict(Mutant="split_fields", Cap=CAP))
    names = [j[0] for j in jobs]
    # (model_notfound_answered is offered only while the relay leaves "not found" unanswered)
    need = {"model_idx_strict", "model_split_fields", "read_text", "reply_class", "reply_dropped", "banner_twice", "snapshot_entry_missing", "http_status",
            "http_nonnumeric_refused", "sent_byte_changed", "read_longer_than_buffer"}
    if not need <= set(names) and strict:
        raise Machinery("binding self-test: the accepted cases do not offer every probe (missing %s)" % sorted(need - set(names)))
    if ctx.quick():
        jobs = [j for j in jobs if j[0] in ("read_text", "reply_dropped", "snapshot_entry_missing", "http_nonnumeric_refused",
                                            "read_longer_than_buffer", "model_notfound_answered")]

    def one(job):
        name, b2, lo, consts = job
        _, rej = validate(ctx, [b2], tag="self_" + name, own_dir="spec_self_" + name, consts=consts)
        return name, (bool(rej) and rej[0][1] >= lo)
    before = ctx.cov["traces_validated_against_impl"]
    with ThreadPoolExecutor(max_workers=4) as ex:
        res = list(ex.map(one, jobs))
    ctx.cov["traces_validated_against_impl"] = before
    bad = [n for n, ok in res if not ok]
    if bad:
        raise Machinery("binding self-test: corrupted case(s) %s accepted by AdminConnTrace (or rejected before the corrupted line)" % bad)
    ctx.cov["binding_selftests"] = "rejected as required: " + ", ".join(n for n, _ in res)


# ------------------------------------------------------------------ coverage
def coverage(ctx, cases, blocks, nacc, fam_sizes, info):
    cov = ctx.cov
    byid = {c["id"]: c for c in cases}
    evs = [r for b in blocks for r in b]
    cnt = lambda p: sum(1 for r in evs if p(r))
    as_intended = merged = split = trunc = empty_tok = 0
    shapes = set()
    obs = dict(merged=[], truncated=[], fragment_applied=[], nonnumeric=[], negative=[])
    for b in blocks:
        c = byid[b[0]["id"]]
        ws = [s for s in c["steps"] if s["op"] == "w"]
        reads = [r for r in b if r["ev"] == "read"]
        if ws:
            groups, cur = [], ""
            for s in ws:
                if s["wait"] and cur:
                    groups.append(cur)
                    cur = ""
                cur += s["data"]
            groups.append(cur)
            intended = sum(-(-len(g) // CAP) for g in groups)
            if intended == len(reads) - 1:
                as_intended += 1
            cmds = [x for x in "".join(s["data"] for s in ws).split("\n") if x.strip()]
            for r in reads[:-1]:
                t = r["text"]
                inner = "\n" in t.strip() and c["fam"] in ("cut1", "cut2", "cut3", "long")
                if inner:
                    merged += 1
                    if len(obs["merged"]) < 3:
                        k = b.index(r)
                        obs["merged"].append(dict(read=t[:120], reply=b[k + 1].get("cls")))
                if t and t not in [x.strip() for x in cmds] and not inner:
                    split += 1
                    k = b.index(r)
                    if b[k + 1].get("cls") == "ok" and len(obs["fragment_applied"]) < 3 and c["fam"] != "whole":
                        obs["fragment_applied"].append(dict(sent=[sig_text(x) for x in cmds][:2], read=sig_text(t)))
                if "" in t.split(" ")[1:]:
                    empty_tok += 1
            for s in ws:
                if len(s["data"]) > CAP and s["wait"]:
                    trunc += 1
                    if len(obs["truncated"]) < 2:
                        obs["truncated"].append(dict(write_bytes=len(s["data"]), reads=[sig_text(r["text"]) + " (%d bytes)" % len(r["text"]) for r in reads[:-1]][:4]))
        for r in b:
            if r["ev"] == "http" and r["q"]["m"] == "DELETE" and r["q"]["kind"] != "routes":
                k = idx_class(r["q"]["idx"])
                if k == "non-numeric" and r["st"] == 200 and len(obs["nonnumeric"]) < 2:
                    obs["nonnumeric"].append(dict(path=r["path"], status=r["st"]))
                if k == "negative" and len(obs["negative"]) < 2:
                    obs["negative"].append(dict(path=r["path"], status=r["st"], err=r["err"][:120]))
        shapes.add((c["fam"], tuple(len(r["text"]) > 0 for r in reads), tuple(r["cls"] for r in b if r["ev"] == "reply"),
                    tuple((r["q"]["m"], r["q"]["kind"], idx_class(r["q"]["idx"]), r["st"]) for r in b if r["ev"] == "http")))
    cov["evaluations"] = len(evs)
    cov["cases"] = len(blocks)
    cov["cases_accepted"] = nacc
    cov["cases_generated_by_family"] = fam_sizes
    cov["cases_run_by_family"] = {f: sum(1 for c in cases if c["fam"] == f) for f in sorted(fam_sizes)}
    cov["events"] = dict(reads=cnt(lambda r: r["ev"] == "read"), replies=cnt(lambda r: r["ev"] == "reply"),
                         banners=cnt(lambda r: r["ev"] == "banner"), snapshots=cnt(lambda r: r["ev"] == "snap"),
                         http_requests=cnt(lambda r: r["ev"] == "http"), sends=cnt(lambda r: r["ev"] == "send"),
                         stalls=cnt(lambda r: r["ev"] == "stall"))
    cov["reply_classes"] = {k: cnt(lambda r, k=k: r["ev"] == "reply" and r["cls"] == k) for k in sorted({r["cls"] for r in evs if r["ev"] == "reply"})}
    cov["http_status_by_index_class"] = {}
    for r in evs:
        if r["ev"] == "http" and r["q"]["m"] == "DELETE" and r["q"]["kind"] != "routes":
            k = "%s->%s" % (idx_class(r["q"]["idx"]), r["st"])
            cov["http_status_by_index_class"][k] = cov["http_status_by_index_class"].get(k, 0) + 1
    cov["tcp_cases_whose_reads_were_as_intended"] = as_intended
    cov["reads_holding_two_commands"] = merged
    cov["reads_holding_a_fragment"] = split
    cov["writes_longer_than_the_buffer"] = trunc
    cov["commands_with_empty_tokens"] = empty_tok
    cov["other_log_lines"] = info.get("other_log_lines")
    cov["observed"] = obs
    cov["distinct_nontrivial"] = len(shapes)
    ev = cov["events"]
    if not ctx.violations and (ev["reads"] < 200 or ev["http_requests"] < 100 or merged < 5 or split < 20 or trunc < 5
                               or not obs["nonnumeric"] or not obs["negative"]):
        raise Machinery("vacuous run: %s merged=%d fragments=%d long=%d" % (json.dumps(ev), merged, split, trunc))
    cov["rule"] = ("evaluations = recorded events of the real front ends decided by TLC (AdminConnTrace); cases = TLC-generated "
                   "(AdminConnGen: %s), seeded sample in the quick tier; distinct_nontrivial = distinct (family, shape of the "
                   "observed reads, reply classes, request/status classes)" % ", ".join("%s %d" % kv for kv in sorted(fam_sizes.items())))
    ex = next((b for b in blocks if any(r["ev"] == "read" and "\n" in r["text"] for r in b)), blocks[0])
    ctx.sample(dict(case=ex[0]["id"], events=[{k: (v if k != "T" else "...") for k, v in r.items() if k not in ("raw",)} for r in ex[1:12]]))
    ctx.assumptions += [
        "what a Read returned is taken from the server's own log line (\"received command: '<text>'\", written before the "
        "command is handled) and the number of banners; the byte range of a Read is found by TLC (the text fixes it up to "
        "trailing white space)",
        "a single write of at most %d bytes to an idle loopback connection is delivered to the next Read whole (one segment); "
        "only then is a Read required to take everything that was written" % CAP,
        "waits end on an observable condition (everything sent but white space was logged as read, one banner more than "
        "reads); a wait of 20 s that does not end is reported as the event `stall`",
        "reply texts are classified by checks/xadmin.py (ok / view / help / error message -> tag); the error messages of "
        "imperatives are read from its source",
        "imperatives.Apply is modelled for addBlack, addRewriter, addRoute sendAllMatch/sendFirstMatch, delRoute, modRoute, "
        "addDest and any unknown first word; other texts (addAgg, grafanaNet ..., regular expressions with metacharacters, "
        "quotes) are outside the fragment and never generated",
        "a case rejected because a Read did not take a whole small write, or because a wait did not end, is run again in a fresh process and reported only if it is rejected again in the same way"]
    cov["trusted_base"] = ["TLC", "harness/admx driver (records only)", "reply classification and place-holder substitution in "
                           "checks/xadmin.py", "kernel loopback TCP", "package log of the standard library (one Write per line)"]
