"""C10 — aggregations emit exactly one correct point per bucket, once, in order.

1. TLC model-checks spec/Aggregator.tla (all interleavings of points, clock advances and ticks for
   small constants; NoDoubleEmit, ClosedStaysClosed, AscendingWithinFlush as invariants,
   ExactlyOnceContribution as a step property); seven named deviations must each be rejected by the
   property they are aimed at.  The "expanded output name" that identifies a bucket is computed by
   spec/AggregatorNames.tla: leftmost-first regex match (spec/Matcher.tla, instanced) + Go
   regexp.Expand template semantics (${n}/$n, n = 0 the whole match, unknown group -> empty, $$ -> $),
   for regexes with and WITHOUT capturing groups (deviation no_group_template_verbatim).
2. R: TLC (-simulate, AggregatorGen.tla) generates behaviours together with what must be on `out`
   after every tick (exact rationals for all ten functions) and the TooOld delta of every step; the
   Go driver (harness/agg, TestReplay) steps them through the real aggregator.NewMocked (injected
   clock, unbuffered inbox and tick channel, Snapshot() barrier after every step) and records;
   checks/agglib.py compares the record with TLC's expectation.
3. T: the same aggregator behind a real table.Table with a buffered inbox and random tick placement
   (TestTrace); the recorded hist/enq/adv/tick/out/sync/end events are validated by TLC against
   AggregatorTrace.tla (the processing point of every enqueued point is a silent step chosen by TLC).
"""
from checks import agglib

LEVEL = "model_checking"


def run(ctx):
    agglib.model_check(ctx)
    agglib.mc_nonvacuity(ctx)

    # ---- R: replay of TLC behaviours on the real aggregator
    behs, fmts = agglib.generate(ctx)
    recs, plan = agglib.make_runs(ctx, behs, fmts)
    outs = agglib.run_replay(ctx, recs)
    st = agglib.compare_replay(ctx, behs, plan, outs)
    agglib.selftest_replay(ctx, behs, plan, outs)

    # ---- T: trace validation behind a real Table
    tstats = agglib.trace_variant(ctx, fmts)

    cov = ctx.cov
    cov["evaluations"] = st["lines"] + st["too_checks"]
    cov["distinct_nontrivial"] = st["distinct_flushes"]
    cov["replay"] = st
    cov["trace_variant"] = tstats
    cov["rule"] = ("evaluations = output lines compared with TLC's exact expectation + TooOld deltas compared; "
                   "distinct_nontrivial = distinct (interval, wait, rule, function, non-empty expected flush content incl. "
                   "expanded output names) "
                   "tuples seen in replayed behaviours; behaviours come from TLC -simulate of AggregatorGen.tla "
                   "(every step also checked by TLC against the invariants and the step property)")
    cov["trusted_base"] = ["TLC", "harness/agg driver (records only)",
                           "checks/agglib.py: parsing of '<name> <float> <ts>' lines and big-rational comparison of a "
                           "printed float with TLC's exact <<num,den>> (|diff| <= 1e-6; stdev through its square)",
                           "spec/Matcher.tla Render / AggregatorNames.tla NmRenderTmpl: the RE2 / template text of the "
                           "abstract regex and format handed to the real code (all strings come from TLC)"]
    ctx.assumptions += ["model time is offset by a base (1.5e9, multiple of every interval) so the code's unsigned "
                        "`now - wait` never wraps; clock non-decreasing; a tick value never exceeds the clock",
                        "R: one message at a time, Snapshot() round-trip as barrier after every step",
                        "derive with several contributions at the extreme timestamp: any of them is accepted; "
                        "order of lines inside one bucket start is free (map order)",
                        "T: all offered names match the regex (the inbox barrier counts them through the aggregator's own "
                        "direction=in counter); integer-exact functions only (sum,count,last,max,min,delta,avg)"]
