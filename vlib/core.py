"""Shared machinery for the per-property checks (python3 stdlib only).

A check is a python module checks/cNN.py with `run(ctx)`.  It uses the helpers
here to (1) model-check TLA+ configs with TLC, (2) let TLC generate scenarios,
(3) build and run the Go driver against /repo's working tree (build tag
`verif`), (4) validate recorded traces with TLC, and finally ctx.finish()
writes evidence/<id>.json, prints VIOLATION / KNOWN-FINDING lines and exits.

Exit codes: 0 property held on everything explored; 1 violation on the real
code; 2 machinery problem (never a verdict).
"""
import json, os, re, shutil, subprocess, sys, time, hashlib, glob

VERIF = os.path.dirname(os.path.dirname(os.path.abspath(__file__)))
REPO = os.environ.get("VERIF_REPO", "/repo")
SPEC = os.path.join(VERIF, "spec")
HARNESS = os.path.join(VERIF, "harness")
OUT = os.path.join(VERIF, "out")
EVID = os.path.join(VERIF, "evidence")
if os.path.abspath(REPO) != "/repo":
    # trying a change out on a scratch copy of the repository: keep /verif/out and /verif/evidence of
    # the real tree untouched
    OUT = os.path.join(VERIF, "out", "scratch-" + hashlib.md5(os.path.abspath(REPO).encode()).hexdigest()[:8])
    EVID = os.path.join(OUT, "evidence")
TLAJAR = "/opt/veriftools/tla/tla2tools.jar:/opt/veriftools/tla/CommunityModules-deps.jar"
NCPU = os.cpu_count() or 4

GOENV = dict(GOFLAGS="-mod=mod", GOPROXY="off", GOSUMDB="off", GOTOOLCHAIN="local")


class Machinery(Exception):
    """A problem of the checking machinery (exit 2), never a verdict."""


class Ctx:
    def __init__(self, prop, tier, seed, level):
        self.prop, self.tier, self.seed, self.level = prop, tier, seed, level
        self.t0 = time.time()
        self.out = os.path.join(OUT, "%s-%s" % (prop, tier))
        shutil.rmtree(self.out, ignore_errors=True)
        os.makedirs(self.out)
        self.cov = dict(states=0, transitions=0, traces_validated_against_impl=0,
                        evaluations=0, distinct_nontrivial=0, samples=[], rule="",
                        trusted_base=[], tlc_runs=[], notes=[])
        self.assumptions = []
        self.violations = []   # dicts: sig, what, detail
        self.known_hits = []
        self.findings = load_findings(prop)
        self.replay_n = 0

    # ---------------------------------------------------------------- util
    def quick(self):
        return self.tier == "quick"

    def pick(self, quick, thorough):
        return quick if self.tier == "quick" else thorough

    def log(self, *a):
        print("[%s %6.1fs]" % (self.prop, time.time() - self.t0), *a, flush=True)

    def note(self, s):
        self.cov["notes"].append(s)
        self.log("NOTE", s)

    def sample(self, s, limit=4):
        if len(self.cov["samples"]) < limit:
            self.cov["samples"].append(s)

    # ---------------------------------------------------------- violations
    def violation(self, sig, what, detail=None):
        """Report a violation observed on the real code.  `sig` is a stable
        signature describing the failing input class / call site; it is matched
        against known_findings.json."""
        for f in self.findings:
            if f.get("status") == "known" and re.search(f["match"], sig):
                if f["id"] not in [k["id"] for k in self.known_hits]:
                    self.known_hits.append(dict(id=f["id"], what=f["what"], n=1, first=what))
                else:
                    for k in self.known_hits:
                        if k["id"] == f["id"]:
                            k["n"] += 1
                return False
        if len(self.violations) < 50:
            self.replay_n += 1
            rdir = os.path.join(OUT, "replays", "%s-%s-%d" % (self.prop, self.tier, self.replay_n))
            shutil.rmtree(rdir, ignore_errors=True)
            os.makedirs(rdir)
            with open(os.path.join(rdir, "violation.json"), "w") as f:
                json.dump(dict(property=self.prop, sig=sig, what=what, detail=detail, seed=self.seed,
                               tier=self.tier,
                               replay_cmd="VERIF_SEED=%d bin/vcheck %s --tier %s" % (self.seed, self.prop, self.tier)),
                          f, indent=1, default=str)
            self.violations.append(dict(sig=sig, what=what, path=rdir))
        else:
            self.violations.append(dict(sig=sig, what=what, path=self.violations[0]["path"]))
        return True

    # -------------------------------------------------------------- finish
    def finish(self):
        wall = time.time() - self.t0
        cov = self.cov
        if not cov["samples"]:
            raise Machinery("no samples recorded")
        cov["explanation"] = cov.get("explanation") or cov["rule"]
        ev = dict(property_id=self.prop, tier=self.tier, seed=self.seed, level=self.level,
                  coverage=cov, assumptions=self.assumptions, wall_s=round(wall, 1),
                  violations=len(self.violations),
                  known_findings=[k["id"] for k in self.known_hits])
        evid = EVID
        if not re.match(r"^C\d+$", self.prop):
            # extension checks (specification coverage beyond the listed properties): not part of MANIFEST.json
            evid = os.path.join(os.path.dirname(EVID), "evidence_extra") if EVID.endswith("/evidence") else EVID
        os.makedirs(evid, exist_ok=True)
        with open(os.path.join(evid, self.prop + ".json"), "w") as f:
            json.dump(ev, f, indent=1, default=str)
        for k in self.known_hits:
            print("KNOWN-FINDING: property=%s %s [%s, %d occurrence(s), e.g. %s]" %
                  (self.prop, k["what"], k["id"], k["n"], k["first"]))
        seen = set()
        for v in self.violations:
            if v["sig"] in seen:
                continue
            seen.add(v["sig"])
            print("VIOLATION property=%s replay=%s  # %s: %s" % (self.prop, v["path"], v["sig"], v["what"]))
        self.log("done: %d violation(s), %d known finding(s), states=%d traces=%d evals=%d wall=%.1fs" % (
            len(self.violations), len(self.known_hits), cov["states"], cov["traces_validated_against_impl"],
            cov["evaluations"], wall))
        return 1 if self.violations else 0

    # ----------------------------------------------------------------- TLC
    def specdir(self, name="spec"):
        """scratch copy of /verif/spec (TLC litters its working directory)."""
        d = os.path.join(self.out, name)
        if not os.path.isdir(d):
            shutil.copytree(SPEC, d)
        return d

    def tlc(self, module, cfg=None, workers=None, args=(), timeout=600, consts=None, heap="8g",
            deque=False, tag=None, expect_ok=True, cwd=None, count=True, simulate=None, props=None,
            invariants=None, extra_cfg=""):
        """Run TLC.  `consts` (dict) generates a cfg from template `cfg`
        (a file in spec/) by appending CONSTANT overrides; returns a result dict."""
        d = cwd or self.specdir()
        tag = tag or (module + "_" + hashlib.md5(repr((cfg, consts, args, simulate)).encode()).hexdigest()[:6])
        cfgfile = cfg or (module + ".cfg")
        if consts or invariants or props or extra_cfg:
            base = open(os.path.join(d, cfgfile)).read()
            lines = [base, "\n"]
            if consts:
                lines.append("CONSTANTS\n" + "\n".join("  %s = %s" % (k, tla_val(v)) for k, v in consts.items()) + "\n")
            if invariants:
                lines.append("INVARIANTS\n  " + "\n  ".join(invariants) + "\n")
            if props:
                lines.append("PROPERTIES\n  " + "\n  ".join(props) + "\n")
            lines.append(extra_cfg)
            cfgfile = tag + ".cfg"
            with open(os.path.join(d, cfgfile), "w") as f:
                f.write("".join(lines))
        meta = os.path.join(self.out, "meta_" + tag)
        shutil.rmtree(meta, ignore_errors=True)
        jopts = ["-XX:+UseParallelGC", "-Xmx" + heap, "-Xss64m"]
        if deque:
            jopts.append("-Dtlc2.tool.queue.IStateQueue=StateDeque")
        cmd = ["java"] + jopts + ["-cp", TLAJAR, "tlc2.TLC", "-metadir", meta,
                                  "-workers", str(workers or NCPU), "-config", cfgfile]
        if simulate:
            cmd += ["-simulate", simulate]
        cmd += list(args) + [module]
        logf = os.path.join(self.out, "tlc_" + tag + ".log")
        t0 = time.time()
        env = dict(os.environ)
        env.pop("JAVA_TOOL_OPTIONS", None)
        with open(logf, "w") as lf:
            try:
                p = subprocess.run(cmd, cwd=d, stdout=lf, stderr=subprocess.STDOUT, timeout=timeout, env=env)
                rc = p.returncode
            except subprocess.TimeoutExpired:
                rc = -9
        txt = open(logf, errors="replace").read()
        shutil.rmtree(meta, ignore_errors=True)
        res = dict(module=module, cfg=cfgfile, rc=rc, log=logf, wall=round(time.time() - t0, 1), text=txt,
                   generated=0, distinct=0, ok=False, violated=None, timeout=(rc == -9))
        m = re.findall(r"(\d+) states generated, (\d+) distinct states found", txt)
        if m:
            res["generated"], res["distinct"] = int(m[-1][0]), int(m[-1][1])
        m = re.search(r"Error: Invariant (\S+) is violated", txt)
        if m:
            res["violated"] = m.group(1)
        m2 = re.search(r"Error: Action property (\S+) is violated|Temporal properties were violated", txt)
        if m2 and not res["violated"]:
            res["violated"] = m2.group(1) or "temporal"
        # (named forms "Temporal property X was violated" are left to the checks, which look at res["text"])
        if "Deadlock reached" in txt and not res["violated"]:
            res["violated"] = "deadlock"
        res["ok"] = (rc == 0 and "No error has been found" in txt) or (simulate is not None and rc in (0,) and not res["violated"] and "Error:" not in txt)
        if count:
            self.cov["states"] += res["distinct"]
            self.cov["transitions"] += res["generated"]
            self.cov["tlc_runs"].append(dict(module=module, cfg=cfgfile, consts=consts, distinct=res["distinct"],
                                             generated=res["generated"], wall_s=res["wall"], ok=res["ok"],
                                             violated=res["violated"]))
        self.log("TLC %s/%s: rc=%s distinct=%d generated=%d violated=%s %.1fs" % (
            module, cfgfile, rc, res["distinct"], res["generated"], res["violated"], res["wall"]))
        if expect_ok and not res["ok"]:
            tail = "\n".join(txt.splitlines()[-40:])
            raise Machinery("TLC run %s/%s did not complete cleanly (rc=%s, violated=%s); log %s\n%s" % (
                module, cfgfile, rc, res["violated"], logf, tail))
        return res

    def tlc_printed(self, res, prefix="@@"):
        """payloads of lines printed by the spec through PrintT("<prefix> ..." ) (TLC prints a TLA+
        string with JSON-compatible escapes)."""
        outl = []
        for line in res["text"].splitlines():
            line = line.strip()
            if not line.startswith('"' + prefix):
                continue
            try:
                s = json.loads(line)
            except Exception:
                continue
            outl.append(s[len(prefix):].strip())
        return outl

    # ------------------------------------------------------------------ Go
    def go_test(self, pkg, run=None, env=None, timeout=1200, args=(), race=False, tags="verif", expect_ok=True):
        """Build+run a driver package of the harness against /repo's working tree."""
        ensure_harness()
        e = dict(os.environ)
        e.update(GOENV)
        e["VERIF_OUT"] = self.out
        e["VERIF_SEED"] = str(self.seed)
        e["VERIF_TIER"] = self.tier
        if env:
            e.update({k: str(v) for k, v in env.items()})
        cmd = ["go", "test", "-tags", tags, "-count=1", "-vet=off", "-timeout", "%ds" % timeout]
        if race:
            cmd.append("-race")
        if run:
            cmd += ["-run", run]
        cmd += ["./" + pkg] + list(args)
        logf = os.path.join(self.out, "go_%s_%s.log" % (pkg.replace("/", "_"), (run or "all").strip("^$")))
        t0 = time.time()
        # tmpfs scratch of the driver: one directory per driver run, removed when the driver has finished
        # (also when it crashed or was killed)
        shm = None
        if os.path.isdir("/dev/shm"):
            try:
                import tempfile
                shm = tempfile.mkdtemp(prefix="verif-run-", dir="/dev/shm")
                e["VERIF_SHM_BASE"] = shm
            except OSError:
                shm = None
        with open(logf, "w") as lf:
            try:
                p = subprocess.run(cmd, cwd=HARNESS, stdout=lf, stderr=subprocess.STDOUT, timeout=timeout + 60, env=e)
                rc = p.returncode
            except subprocess.TimeoutExpired:
                rc = -9
            finally:
                if shm:
                    shutil.rmtree(shm, ignore_errors=True)
        txt = open(logf, errors="replace").read()
        self.log("go test %s -run %s: rc=%s %.1fs" % (pkg, run, rc, time.time() - t0))
        res = dict(rc=rc, log=logf, text=txt, wall=time.time() - t0)
        if "[build failed]" in txt or "[setup failed]" in txt:
            raise Machinery("driver %s does not build against the current tree; log %s\n%s" % (pkg, logf, txt[-3000:]))
        if expect_ok and rc != 0:
            raise Machinery("driver %s failed (rc=%s); log %s\n%s" % (pkg, rc, logf, txt[-3000:]))
        return res

    def read_ndjson(self, name):
        p = name if os.path.isabs(name) else os.path.join(self.out, name)
        out = []
        with open(p) as f:
            for line in f:
                line = line.strip()
                if line:
                    out.append(json.loads(line))
        return out

    def write_ndjson(self, name, recs):
        p = name if os.path.isabs(name) else os.path.join(self.out, name)
        with open(p, "w") as f:
            for r in recs:
                f.write(json.dumps(r, separators=(",", ":")) + "\n")
        return p

    # ----------------------------------------------------- trace validation
    def validate_traces(self, module, cfg, trace_file, n_events, n_traces, consts=None, timeout=900,
                        deque=False, heap="8g", workers=1, tag=None, own_dir=None):
        """Run a trace spec over an ndjson file.  The trace spec reads the file
        named by env VERIF_TRACE, and on completion prints `@@TRACE {"matched":k}`
        (k = longest matched prefix, from a TLCSet/TLCGet high-water mark or the
        diameter).  Returns (accepted, matched, result)."""
        # own_dir=<name>: run in a private copy of spec/ so that several validations can run concurrently
        d = self.specdir(own_dir) if own_dir else self.specdir()
        dst = os.path.join(d, "trace.ndjson")
        src = trace_file if os.path.isabs(trace_file) else os.path.join(self.out, trace_file)
        if os.path.abspath(src) != dst:
            shutil.copyfile(src, dst)
        res = self.tlc(module, cfg, workers=workers, consts=consts, timeout=timeout, deque=deque, heap=heap,
                       expect_ok=False, count=False, tag=tag, cwd=d)
        matched = None
        for s in self.tlc_printed(res, "@@TRACE"):
            try:
                matched = json.loads(s)["matched"]
            except Exception:
                pass
        if res["timeout"]:
            raise Machinery("trace validation %s timed out; log %s" % (module, res["log"]))
        accepted = res["ok"] and matched == n_events
        if res["rc"] != 0 and res["violated"] is None and matched is None:
            raise Machinery("trace validation %s failed to run; log %s\n%s" % (module, res["log"], res["text"][-3000:]))
        self.log("trace validation %s: accepted=%s matched=%s/%s violated=%s" % (module, accepted, matched, n_events, res["violated"]))
        if accepted:
            self.cov["traces_validated_against_impl"] += n_traces
            self.cov["trace_events"] = self.cov.get("trace_events", 0) + n_events
        return accepted, matched, res


def tla_val(v):
    if isinstance(v, bool):
        return "TRUE" if v else "FALSE"
    if isinstance(v, (int,)):
        return str(v)
    if isinstance(v, (set, frozenset)):
        return "{" + ", ".join(tla_val(x) for x in sorted(v, key=repr)) + "}"
    if isinstance(v, (list, tuple)):
        return "<<" + ", ".join(tla_val(x) for x in v) + ">>"
    if isinstance(v, str):
        if v.startswith("="):      # raw TLA expression / model value
            return v[1:]
        return json.dumps(v)
    raise ValueError(v)


def load_findings(prop):
    p = os.path.join(VERIF, "known_findings.json")
    if not os.path.exists(p):
        return []
    data = json.load(open(p))
    return [f for f in data.get("findings", []) if f.get("property") == prop]


_harness_ready = False


def ensure_harness():
    """go.sum must be the repository's (module replace => /repo).  With VERIF_REPO pointing at a
    scratch copy of the repository (used only to try changes out without touching /repo) the
    harness is mirrored next to it with its replace directive rewritten."""
    global _harness_ready, HARNESS
    if _harness_ready:
        return
    try:
        if os.path.abspath(REPO) != "/repo":
            mirror = os.path.abspath(REPO).rstrip("/") + "-harness"
            shutil.rmtree(mirror, ignore_errors=True)
            shutil.copytree(os.path.join(VERIF, "harness"), mirror)
            gm = open(os.path.join(mirror, "go.mod")).read().replace("=> /repo", "=> " + os.path.abspath(REPO))
            open(os.path.join(mirror, "go.mod"), "w").write(gm)
            HARNESS = mirror
        src = os.path.join(REPO, "go.sum")
        dst = os.path.join(HARNESS, "go.sum")
        if not os.path.exists(dst) or open(src).read() != open(dst).read():
            shutil.copyfile(src, dst)
    except OSError as e:
        raise Machinery("cannot prepare harness: %s" % e)
    _harness_ready = True


def main(argv):
    import argparse, importlib
    ap = argparse.ArgumentParser()
    ap.add_argument("prop")
    ap.add_argument("--tier", default=os.environ.get("VERIF_TIER", "quick"), choices=["quick", "thorough"])
    ap.add_argument("--replay", default=None)
    a = ap.parse_args(argv)
    seed = int(os.environ.get("VERIF_SEED", "1") or 1)
    if os.path.abspath(REPO) == "/repo":
        # development switches of the checks (skip model checking, caches, partial runs) are honoured only on a
        # scratch copy of the repository: a registered command always runs the whole check
        for k in list(os.environ):
            if k.startswith("VERIF_") and k not in ("VERIF_SEED", "VERIF_TIER", "VERIF_REPO"):
                del os.environ[k]
    sys.path.insert(0, VERIF)
    mod = importlib.import_module("checks." + a.prop.lower())
    ctx = Ctx(a.prop, a.tier, seed, mod.LEVEL)
    ctx.replay = a.replay
    try:
        mod.run(ctx)
        rc = ctx.finish()
    except Machinery as e:
        print("MACHINERY-ERROR property=%s: %s" % (a.prop, e), flush=True)
        rc = 2
    except SystemExit:
        raise
    except BaseException:
        # a bug of the checking machinery is never a verdict
        import traceback
        traceback.print_exc()
        print("MACHINERY-ERROR property=%s: uncaught exception in the check" % a.prop, flush=True)
        rc = 2
    sys.exit(rc)
